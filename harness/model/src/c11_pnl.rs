//! C11 — position profit and loss moves with the price in the right direction.
//!
//! Subject: the real generic `PositionExt::pnl_value` (+ `size_delta_in_tokens`) of
//! crates/model/src/position.rs, `Price::pick_price_for_pnl` (price.rs), `BaseMarketExt::{pnl,
//! pool_value_without_pnl_for_one_side}` (market/base.rs) and `MarketUtils::cap_pnl`
//! (market/utils.rs, through the cfg hook `verif_cap_pnl`) over the plain-struct `VMarket` /
//! `VPosition` environment, instantiated at a narrow width. Oracle: exact arithmetic in a wider type.
use crate::vmarket::*;
use gmsol_model::{
    market::verif_cap_pnl,
    price::{Price, Prices},
    PnlFactorKind, PositionExt,
};

//@ prop=C11 tier=quick kind=hold
//@ enc=Price::pick_price_for_pnl, Price::pick_price (instantiated at the production type u64: selection only)
//@ bound=none: every u64 min/max pair, both sides, both maximize flags
#[kani::proof]
fn c11_pick_price_for_pnl_u64() {
    let p = Price::<u64> { min: kani::any(), max: kani::any() };
    let (is_long, maximize): (bool, bool) = (kani::any(), kani::any());
    let got = *p.pick_price_for_pnl(is_long, maximize);
    // the pnl of a long grows with the price: maximising picks max for longs, min for shorts
    let want = if is_long == maximize { p.max } else { p.min };
    assert!(got == want, "C11: pick_price_for_pnl picks the wrong end of the price range");
    assert!(*p.pick_price(maximize) == if maximize { p.max } else { p.min });
    kani::cover!(is_long && !maximize && p.min != p.max);
    kani::cover!(!is_long && !maximize && p.min != p.max);
}

macro_rules! bodies {
    ($m:ident, $t:ty, $s:ty, $r:ty, $rs:ty, $d:expr) => {
        pub mod $m {
            use super::*;
            crate::width_prelude!($t, $s, $r, $rs, $d);

            /// `cap_pnl`: positive pnl is capped at floor(pool_value * max_factor / UNIT) for the right
            /// side and factor kind; non-positive pnl is returned unchanged.
            pub fn cap_pnl_exact() {
                let mut m = VMarket::<T, D>::zero();
                m.pnl_factor = VPnlFactors { deposit: Side2::any(), withdrawal: Side2::any(), trader: Side2::any(), adl: Side2::any(), min_after_adl: Side2::any() };
                let is_long: bool = kani::any();
                let pnl: S = kani::any();
                let pool_value: T = kani::any();
                let factor = u(*m.pnl_factor.trader.get(is_long));
                let got = verif_cap_pnl::<_, D>(&m, is_long, &pnl, &pool_value, PnlFactorKind::MaxForTrader);
                let want: Option<RS> = if pnl > 0 {
                    match fit(mul_div_floor(u(pool_value), factor, UNIT)) {
                        Some(max_pnl) if max_pnl <= SMAX as R => Some(if s(pnl) > max_pnl as RS { max_pnl as RS } else { s(pnl) }),
                        _ => None,
                    }
                } else {
                    Some(s(pnl))
                };
                match &got {
                    Ok(c) => {
                        assert!(want == Some(s(*c)), "C11: capped pnl is not min(pnl, floor(pool_value * max_pnl_factor_for_trader / UNIT))");
                        assert!(*c <= pnl, "C11: capping raised the pnl");
                    }
                    Err(_) => assert!(want.is_none(), "C11: cap_pnl fails where the exact result is representable"),
                }
                kani::cover!(got.is_ok() && want.map_or(false, |w| w < s(pnl) && w > 0), "capped");
                kani::cover!(got.is_ok() && pnl > 0 && want == Some(s(pnl)), "positive, not capped");
                kani::cover!(got.is_ok() && pnl < 0, "negative unchanged");
                kani::cover!(got.is_ok() && want == Some(0) && pnl > 0, "capped at zero");
                kani::cover!(got.is_err(), "cap not representable");
                core::mem::forget(got);
            }

            /// Market with the pools and the factor `pnl_value` reads symbolic.
            pub fn pnl_market(symbolic_pools: bool) -> VMarket<T, D> {
                let mut m = VMarket::<T, D>::zero();
                if symbolic_pools {
                    m.liquidity = VPool::any();
                    m.open_interest = Side2 { long: VPool::any(), short: VPool::any() };
                    m.open_interest_in_tokens = Side2 { long: VPool::any(), short: VPool::any() };
                    m.pnl_factor.trader = Side2::any();
                }
                m
            }

            pub fn any_position(m: VMarket<T, D>) -> VPosition<T, D> {
                any_position_side(m, None)
            }
            pub fn any_position_side(m: VMarket<T, D>, side: Option<bool>) -> VPosition<T, D> {
                let is_long = match side {
                    Some(b) => b,
                    None => kani::any(),
                };
                let mut p = VPosition::<T, D>::zero(m, is_long, kani::any());
                p.size_in_usd = kani::any();
                p.size_in_tokens = kani::any();
                p
            }

            pub struct RefPnl {
                pub pnl: RS,
                pub uncapped: RS,
                pub tokens: R,
                pub total: RS,
                pub capped_total: RS,
                pub cap_binds: bool,
            }

            /// Exact reference of `pnl_value`; `None` = failure.
            pub fn reference(p: &VPosition<T, D>, prices: &Prices<T>, size_delta: R) -> Option<RefPnl> {
                let m = &p.market;
                let (size, tokens) = (u(p.size_in_usd), u(p.size_in_tokens));
                let exec = if p.is_long { u(prices.index_token_price.min) } else { u(prices.index_token_price.max) };
                let value = fit(tokens * exec)?;
                if value > SMAX as R || size > SMAX as R {
                    return None;
                }
                let total: RS = if p.is_long { value as RS - size as RS } else { size as RS - value as RS };
                let mut capped_total = total;
                let mut cap_binds = false;
                if total > 0 {
                    let pool_value = if p.is_long {
                        fit(u(m.liquidity.long) * u(prices.long_token_price.min))?
                    } else {
                        fit(u(m.liquidity.short) * u(prices.short_token_price.min))?
                    };
                    // pool pnl for the position's side, maximised
                    let oi_pools = &m.open_interest;
                    let oit_pools = &m.open_interest_in_tokens;
                    let oi = fit(u(oi_pools.get(p.is_long).long) + u(oi_pools.get(p.is_long).short))?;
                    let oit = fit(u(oit_pools.get(p.is_long).long) + u(oit_pools.get(p.is_long).short))?;
                    let pool_pnl: RS = if oi == 0 && oit == 0 {
                        0
                    } else {
                        let price = if p.is_long { u(prices.index_token_price.max) } else { u(prices.index_token_price.min) };
                        let oiv = fit(oit * price)?;
                        if oiv > SMAX as R || oi > SMAX as R {
                            return None;
                        }
                        let x = if p.is_long { oiv as RS - oi as RS } else { oi as RS - oiv as RS };
                        fit_s(x)?
                    };
                    let capped_pool_pnl: RS = if pool_pnl > 0 {
                        let max_pnl = fit(mul_div_floor(pool_value, u(*m.pnl_factor.trader.get(p.is_long)), UNIT))?;
                        if max_pnl > SMAX as R {
                            return None;
                        }
                        if pool_pnl > max_pnl as RS { max_pnl as RS } else { pool_pnl }
                    } else {
                        pool_pnl
                    };
                    if capped_pool_pnl != pool_pnl && capped_pool_pnl >= 0 && pool_pnl > 0 {
                        let x = fit(mul_div_floor(capped_pool_pnl as R, total as R, pool_pnl as R))?;
                        if x > SMAX as R {
                            return None;
                        }
                        capped_total = x as RS;
                        cap_binds = true;
                    }
                }
                let sdt = if size == size_delta {
                    tokens
                } else {
                    if size == 0 {
                        return None;
                    }
                    fit(if p.is_long { mul_div_ceil(tokens, size_delta, size) } else { mul_div_floor(tokens, size_delta, size) })?
                };
                if tokens == 0 {
                    return None;
                }
                let scale = |t: RS| -> Option<RS> {
                    let q = fit(mul_div_floor(sdt, t.unsigned_abs() as R, tokens))?;
                    if q > SMAX as R {
                        return None;
                    }
                    Some(if t > 0 { q as RS } else { -(q as RS) })
                };
                Some(RefPnl { pnl: scale(capped_total)?, uncapped: scale(total)?, tokens: sdt, total, capped_total, cap_binds })
            }

            /// `size_delta_in_tokens`: all tokens on a full close, else ceil (long) / floor (short) of
            /// tokens*delta/size.
            pub fn size_delta_in_tokens() {
                let pos = any_position(pnl_market(false));
                let delta: T = kani::any();
                let (size, tokens) = (u(pos.size_in_usd), u(pos.size_in_tokens));
                let got = pos.size_delta_in_tokens(&delta);
                let p = tokens * u(delta);
                match &got {
                    Ok(t) => {
                        if u(delta) == size {
                            assert!(u(*t) == tokens, "C11: a full close does not close every token");
                        } else if pos.is_long {
                            assert!(is_ceil_div(u(*t), p, size), "C11: closed tokens of a long are not ceil(tokens*delta/size)");
                        } else {
                            assert!(is_floor_div(u(*t), p, size), "C11: closed tokens of a short are not floor(tokens*delta/size)");
                        }
                    }
                    Err(_) => {
                        assert!(u(delta) != size);
                        assert!(size == 0 || (pos.is_long && p > TMAX * size) || (!pos.is_long && p >= (TMAX + 1) * size), "C11: size delta in tokens fails although the result fits");
                    }
                }
                kani::cover!(got.as_ref().map_or(false, |t| pos.is_long && u(*t) * size > p && u(*t) > 1), "long: rounded up");
                kani::cover!(got.as_ref().map_or(false, |t| !pos.is_long && u(*t) * size < p && u(*t) > 1), "short: rounded down");
                kani::cover!(got.is_ok() && u(delta) == size && size > 0, "full close");
                kani::cover!(got.is_err() && size != 0, "overflow");
                core::mem::forget(got);
            }

            /// Uncapped branch (market pools zero, so the trader cap never binds): pnl == uncapped pnl ==
            /// sign(total) * floor(closed_tokens * |total| / tokens) with total = +-(tokens*price - size),
            /// the price picked against the trader (min for longs, max for shorts).
            pub fn pnl_uncapped_exact(explain_failure: bool) {
                let pos = any_position(pnl_market(false));
                let prices: Prices<T> = any_prices(false);
                let delta: T = kani::any();
                let (size, tokens) = (u(pos.size_in_usd), u(pos.size_in_tokens));
                let exec = if pos.is_long { u(prices.index_token_price.min) } else { u(prices.index_token_price.max) };
                let value = tokens * exec;
                let got = pos.pnl_value(&prices, &delta);
                if let Ok((pnl, uncapped, closed)) = &got {
                    assert!(value <= SMAX as R && size <= SMAX as R, "C11: pnl computed although the position value does not fit the signed type");
                    let total: RS = if pos.is_long { value as RS - size as RS } else { size as RS - value as RS };
                    assert!(*pnl == *uncapped, "C11: pnl differs from the uncapped pnl although the trader cap cannot bind");
                    // closed tokens (the rounding of a partial close is decided by c11_size_delta_in_tokens_*)
                    if u(delta) == size {
                        assert!(u(*closed) == tokens, "C11: a full close does not close every token");
                    }
                    let tm = total.unsigned_abs() as R;
                    assert!(is_floor_div(pnl.unsigned_abs() as R, u(*closed) * tm, tokens), "C11: |pnl| is not floor(closed_tokens * |total pnl| / tokens)");
                    assert!(*pnl == 0 || (*pnl > 0) == (total > 0), "C11: pnl has the wrong sign");
                    kani::cover!(pos.is_long && *pnl > 1 && u(*closed) < tokens, "long profit, partial close");
                    kani::cover!(pos.is_long && *pnl < -1, "long loss");
                    kani::cover!(!pos.is_long && *pnl > 1, "short profit");
                    kani::cover!(!pos.is_long && *pnl < -1 && u(*closed) < tokens, "short loss, partial close");
                    kani::cover!(u(prices.index_token_price.min) < u(prices.index_token_price.max) && *pnl != 0, "spread");
                } else if explain_failure {
                    // failure only from representability: position value, closed tokens, or the scaled pnl
                    let p = tokens * u(delta);
                    let closed_fails = u(delta) != size && (size == 0 || (pos.is_long && p > TMAX * size) || (!pos.is_long && p >= (TMAX + 1) * size));
                    if !(value > SMAX as R || size > SMAX as R || tokens == 0 || closed_fails) {
                        // then only the scaled pnl can be too large: |total| * closed >= (SMAX+1) * tokens needs closed > tokens
                        assert!(u(delta) > size, "C11: pnl fails although every intermediate is representable");
                    }
                }
                kani::cover!(got.is_err() && tokens > 0 && size > 0 && value <= SMAX as R, "fails on the closed tokens / scaled pnl");
                core::mem::forget(got);
            }

            /// Full close with a symbolic market: the pnl is the (capped) total pnl itself:
            /// total if the pool pnl is within the trader cap, else floor(cap * total / pool_pnl);
            /// pnl <= uncapped pnl = total.
            pub fn full_close_capped_exact(is_long: bool) {
                let pos = any_position_side(pnl_market(true), Some(is_long));
                let m = &pos.market;
                let prices: Prices<T> = any_prices(false);
                let (size, tokens) = (u(pos.size_in_usd), u(pos.size_in_tokens));
                let exec = if pos.is_long { u(prices.index_token_price.min) } else { u(prices.index_token_price.max) };
                let value = tokens * exec;
                let got = pos.pnl_value(&prices, &pos.size_in_usd);
                if let Ok((pnl, uncapped, closed)) = &got {
                    assert!(value <= SMAX as R && size <= SMAX as R);
                    let total: RS = if pos.is_long { value as RS - size as RS } else { size as RS - value as RS };
                    assert!(u(*closed) == tokens, "C11: a full close does not close every token");
                    assert!(s(*uncapped) == total, "C11: full-close uncapped pnl is not +-(tokens*price - size)");
                    assert!(*pnl <= *uncapped, "C11: the pnl credited exceeds the uncapped pnl");
                    if total <= 0 {
                        assert!(*pnl == *uncapped, "C11: a loss was changed by the trader pnl cap");
                    } else {
                        // pool pnl of the position's side (maximised) and the trader cap
                        let oi = u(m.open_interest.get(pos.is_long).long) + u(m.open_interest.get(pos.is_long).short);
                        let oit = u(m.open_interest_in_tokens.get(pos.is_long).long) + u(m.open_interest_in_tokens.get(pos.is_long).short);
                        let price = if pos.is_long { u(prices.index_token_price.max) } else { u(prices.index_token_price.min) };
                        let pool_pnl: RS = if oi == 0 && oit == 0 { 0 } else if pos.is_long { (oit * price) as RS - oi as RS } else { oi as RS - (oit * price) as RS };
                        let pool_value = if pos.is_long { u(m.liquidity.long) * u(prices.long_token_price.min) } else { u(m.liquidity.short) * u(prices.short_token_price.min) };
                        let cap = mul_div_floor(pool_value, u(*m.pnl_factor.trader.get(pos.is_long)), UNIT) as RS;
                        if pool_pnl <= 0 || pool_pnl <= cap {
                            assert!(*pnl == *uncapped, "C11: pnl was capped although the pool pnl is within the trader cap");
                        } else {
                            assert!(is_floor_div(u(pnl.unsigned_abs() as T), (cap as R) * (total as R), pool_pnl as R) && *pnl >= 0, "C11: capped pnl is not floor(cap * total / pool_pnl)");
                        }
                        kani::cover!(pool_pnl > cap && *pnl < *uncapped && *pnl > 0, "cap binds");
                        kani::cover!(pool_pnl > 0 && pool_pnl <= cap && *pnl > 0, "cap does not bind");
                        kani::cover!(pool_pnl > cap && cap == 0 && *pnl == 0, "capped to zero");
                    }
                }
                core::mem::forget(got);
            }

            /// Any close size with a symbolic market: pnl <= uncapped pnl; losses are never capped.
            pub fn pnl_le_uncapped() {
                let pos = any_position(pnl_market(true));
                let prices: Prices<T> = any_prices(false);
                let delta: T = kani::any();
                let got = pos.pnl_value(&prices, &delta);
                if let Ok((pnl, uncapped, _)) = &got {
                    assert!(*pnl <= *uncapped, "C11: the pnl credited exceeds the uncapped pnl");
                    assert!(*pnl >= 0 || *pnl == *uncapped, "C11: a loss was changed by the trader pnl cap");
                    assert!(*uncapped > 0 || *pnl == *uncapped, "C11: a non-positive pnl was changed by the trader pnl cap");
                    kani::cover!(*pnl < *uncapped && *pnl > 0 && u(delta) < u(pos.size_in_usd), "partial close, cap binds");
                    kani::cover!(*pnl == *uncapped && *pnl > 0, "cap does not bind");
                    kani::cover!(*pnl < 0, "loss");
                }
                core::mem::forget(got);
            }

            /// Differential check against the exact reference (one evaluation).
            pub fn pnl_value_exact(symbolic_pools: bool) {
                let pos = any_position(pnl_market(symbolic_pools));
                let prices: Prices<T> = any_prices(false);
                let size_delta: T = kani::any();
                let want = reference(&pos, &prices, u(size_delta));
                let got = pos.pnl_value(&prices, &size_delta);
                match &got {
                    Ok((pnl, uncapped, tokens)) => {
                        assert!(want.is_some(), "C11: pnl computed although the exact computation fails");
                        let w = want.as_ref().unwrap();
                        assert!(s(*uncapped) == w.uncapped, "C11: uncapped pnl differs from the exact reference");
                        assert!(s(*pnl) == w.pnl, "C11: pnl differs from the exact reference");
                        assert!(u(*tokens) == w.tokens, "C11: size delta in tokens differs from the exact reference");
                        assert!(*pnl <= *uncapped, "C11: the pnl credited exceeds the uncapped pnl");
                        if !w.cap_binds {
                            assert!(*pnl == *uncapped, "C11: pnl differs from the uncapped pnl although the trader cap does not bind");
                        }
                    }
                    Err(_) => assert!(want.is_none(), "C11: pnl fails where the exact computation is representable"),
                }
                kani::cover!(got.is_ok() && want.as_ref().map_or(false, |w| w.pnl > 0 && !w.cap_binds) && pos.is_long, "long in profit");
                kani::cover!(got.is_ok() && want.as_ref().map_or(false, |w| w.pnl > 0 && !w.cap_binds) && !pos.is_long, "short in profit");
                kani::cover!(got.is_ok() && want.as_ref().map_or(false, |w| w.pnl < 0) && pos.is_long, "long in loss");
                kani::cover!(got.is_ok() && want.as_ref().map_or(false, |w| w.pnl < 0) && !pos.is_long, "short in loss");
                kani::cover!(got.is_ok() && want.as_ref().map_or(false, |w| w.tokens < u(pos.size_in_tokens) && w.tokens > 0 && w.pnl != 0), "partial close");
                if symbolic_pools {
                    kani::cover!(got.is_ok() && want.as_ref().map_or(false, |w| w.cap_binds && w.pnl < w.uncapped && w.pnl > 0), "trader cap binds");
                    kani::cover!(got.is_ok() && want.as_ref().map_or(false, |w| w.cap_binds && w.pnl == 0 && w.uncapped > 0), "capped to zero");
                }
                kani::cover!(got.is_err() && u(pos.size_in_tokens) > 0 && u(pos.size_in_usd) > 0, "fails");
                core::mem::forget(got);
            }

            /// Index prices `p1 <= p2` (both ends); everything else identical.
            pub fn two_index_prices() -> (Prices<T>, Prices<T>) {
                let p1: Prices<T> = any_prices(false);
                let mut p2 = p1;
                p2.index_token_price = any_price();
                kani::assume(p1.index_token_price.min <= p2.index_token_price.min && p1.index_token_price.max <= p2.index_token_price.max);
                (p1, p2)
            }

            /// Monotonicity in the index price: the uncapped pnl always; the credited pnl whenever the
            /// trader cap does not bind (then it equals the uncapped pnl).
            pub fn pnl_monotone(symbolic_pools: bool, full_close: bool) {
                pnl_monotone_side(symbolic_pools, full_close, None)
            }
            pub fn pnl_monotone_long(symbolic_pools: bool, full_close: bool) {
                let (u1, u2, ok) = pnl_monotone_core(symbolic_pools, full_close, Some(true));
                kani::cover!(ok && u1 < u2 && u1 > 0, "long, profit grows");
                kani::cover!(ok && u1 < 0 && u2 > 0, "long, loss to profit");
            }
            pub fn pnl_monotone_short(symbolic_pools: bool, full_close: bool) {
                let (u1, u2, ok) = pnl_monotone_core(symbolic_pools, full_close, Some(false));
                kani::cover!(ok && u1 > u2 && u2 > 0, "short, profit shrinks");
                kani::cover!(ok && u1 > 0 && u2 < 0, "short, profit to loss");
            }
            pub fn pnl_monotone_side(symbolic_pools: bool, full_close: bool, side: Option<bool>) {
                let (u1, u2, ok) = pnl_monotone_core(symbolic_pools, full_close, side);
                kani::cover!(ok && u1 < u2 && u1 > 0, "profit grows with the price");
                kani::cover!(ok && u1 > u2 && u2 > 0, "profit shrinks with the price");
                kani::cover!(ok && u1 < 0 && u2 > 0, "loss to profit");
                kani::cover!(ok && u1 > 0 && u2 < 0, "profit to loss");
            }
            /// Returns (uncapped pnl at p1, uncapped pnl at p2, both evaluations succeeded).
            pub fn pnl_monotone_core(symbolic_pools: bool, full_close: bool, side: Option<bool>) -> (S, S, bool) {
                let pos = any_position_side(pnl_market(symbolic_pools), side);
                let (p1, p2) = two_index_prices();
                let size_delta: T = if full_close { pos.size_in_usd } else { kani::any() };
                let r1 = pos.pnl_value(&p1, &size_delta);
                let r2 = pos.pnl_value(&p2, &size_delta);
                if let (Ok((pnl1, unc1, t1)), Ok((pnl2, unc2, t2))) = (&r1, &r2) {
                    assert!(*t1 == *t2, "C11: closed size in tokens depends on the index price");
                    if pos.is_long {
                        assert!(*unc1 <= *unc2, "C11: the uncapped pnl of a long decreased as the index price rose");
                    } else {
                        assert!(*unc1 >= *unc2, "C11: the uncapped pnl of a short increased as the index price rose");
                    }
                    assert!(*pnl1 <= *unc1 && *pnl2 <= *unc2, "C11: the pnl credited exceeds the uncapped pnl");
                    if *pnl1 == *unc1 && *pnl2 == *unc2 {
                        // cap not binding at either price
                        if pos.is_long {
                            assert!(*pnl1 <= *pnl2, "C11: the pnl of a long decreased as the index price rose");
                        } else {
                            assert!(*pnl1 >= *pnl2, "C11: the pnl of a short increased as the index price rose");
                        }
                    }
                    // losses are never capped: the credited pnl equals the uncapped pnl when it is not positive
                    if *unc1 <= 0 {
                        assert!(*pnl1 == *unc1, "C11: a loss was changed by the trader pnl cap");
                    }
                }
                let out = match (&r1, &r2) {
                    (Ok((_, u1, _)), Ok((_, u2, _))) => (*u1, *u2, true),
                    _ => (0, 0, false),
                };
                core::mem::forget((r1, r2));
                out
            }

            /// The strict clause (credited pnl monotone) inside the region where the trader cap binds.
            pub fn capped_pnl_monotone() {
                let pos = any_position(pnl_market(true));
                let (p1, p2) = two_index_prices();
                let size_delta: T = kani::any();
                let r1 = pos.pnl_value(&p1, &size_delta);
                let r2 = pos.pnl_value(&p2, &size_delta);
                if let (Ok((pnl1, unc1, _)), Ok((pnl2, unc2, _))) = (&r1, &r2) {
                    kani::assume(pos.is_long);
                    kani::assume(*pnl1 < *unc1 || *pnl2 < *unc2); // the cap binds at one of the prices
                    assert!(*pnl1 <= *pnl2, "C11: the capped pnl of a long decreased as the index price rose");
                }
                core::mem::forget((r1, r2));
            }

            /// A partial close realises the share of the (capped) total pnl that corresponds to the
            /// closed tokens, truncated towards zero: |pnl(d)*tokens - pnl(full)*tokens(d)| < tokens.
            pub fn partial_close_proportional(symbolic_pools: bool) {
                let pos = any_position(pnl_market(symbolic_pools));
                let prices: Prices<T> = any_prices(false);
                let size_delta: T = kani::any();
                let full = pos.pnl_value(&prices, &pos.size_in_usd);
                let part = pos.pnl_value(&prices, &size_delta);
                if let (Ok((pnl_f, unc_f, t_f)), Ok((pnl_p, unc_p, t_p))) = (&full, &part) {
                    let (size, tokens) = (u(pos.size_in_usd), u(pos.size_in_tokens));
                    assert!(*t_f == pos.size_in_tokens, "C11: a full close does not close every token");
                    // closed tokens: ceil for longs, floor for shorts
                    if u(size_delta) != size {
                        if pos.is_long {
                            assert!(is_ceil_div(u(*t_p), tokens * u(size_delta), size), "C11: closed tokens of a long are not ceil(tokens*delta/size)");
                        } else {
                            assert!(is_floor_div(u(*t_p), tokens * u(size_delta), size), "C11: closed tokens of a short are not floor(tokens*delta/size)");
                        }
                    }
                    let lhs = (s(*pnl_p) as i64) * (tokens as i64);
                    let rhs = (s(*pnl_f) as i64) * (u(*t_p) as i64);
                    let d = if lhs > rhs { lhs - rhs } else { rhs - lhs };
                    assert!(d < tokens as i64, "C11: partial-close pnl is not the proportional share of the full-close pnl (up to rounding)");
                    let lhs_u = (s(*unc_p) as i64) * (tokens as i64);
                    let rhs_u = (s(*unc_f) as i64) * (u(*t_p) as i64);
                    let du = if lhs_u > rhs_u { lhs_u - rhs_u } else { rhs_u - lhs_u };
                    assert!(du < tokens as i64, "C11: partial-close uncapped pnl is not the proportional share (up to rounding)");
                    // rounding is towards zero: the share never has a larger magnitude or another sign
                    assert!((*pnl_p >= 0) == (*pnl_f >= 0) || *pnl_p == 0, "C11: partial-close pnl has the opposite sign of the full-close pnl");
                    if u(size_delta) <= size {
                        assert!(pnl_p.unsigned_abs() <= pnl_f.unsigned_abs(), "C11: partial-close pnl exceeds the full-close pnl in magnitude");
                    }
                    kani::cover!(u(*t_p) > 0 && u(*t_p) < tokens && *pnl_p > 0 && *pnl_p < *pnl_f, "partial close in profit");
                    kani::cover!(u(*t_p) > 0 && u(*t_p) < tokens && *pnl_p < 0 && *pnl_p > *pnl_f, "partial close in loss");
                    kani::cover!(d != 0, "share rounded");
                }
                core::mem::forget((full, part));
            }
        }
    };
}
bodies!(w8, u8, i8, u32, i32, 1);
bodies!(w16, u16, i16, u32, i32, 2);

//@ prop=C11 tier=quick kind=hold
//@ enc=MarketUtils::cap_pnl (via verif_cap_pnl hook), utils::apply_factor, Unsigned::to_signed
//@ bound=width-reduced T=u16, DECIMALS=2 (UNIT 100): every i16 pnl, u16 pool value, u16 pnl factors of every kind and side
//@ stubs=market environment = plain-struct VMarket
#[kani::proof]
fn c11_cap_pnl_exact_u16() {
    w16::cap_pnl_exact();
}

//@ prop=C11 tier=quick kind=hold
//@ enc=PositionExt::size_delta_in_tokens
//@ bound=width-reduced T=u8: every u8 position size (usd, tokens), size delta, both sides
//@ stubs=position environment = plain-struct VPosition
#[kani::proof]
fn c11_size_delta_in_tokens_u8() {
    w8::size_delta_in_tokens();
}

//@ prop=C11 tier=experimental kind=hold
//@ enc=PositionExt::size_delta_in_tokens
//@ bound=width-reduced T=u16: every u16 position size (usd, tokens), size delta, both sides
//@ stubs=position environment = plain-struct VPosition
//@ timeout=5400 mem=30
#[kani::proof]
fn c11_size_delta_in_tokens_u16() {
    w16::size_delta_in_tokens();
}

//@ prop=C11 tier=quick kind=hold
//@ enc=PositionExt::{pnl_value,size_delta_in_tokens}, Price::pick_price_for_pnl, BaseMarketExt::{pnl,pool_value_without_pnl_for_one_side}, MarketUtils::cap_pnl, MulDiv::checked_mul_div_with_signed_numerator
//@ bound=width-reduced T=u8, DECIMALS=1 (UNIT 10): every u8 position size (usd, tokens), both sides, every u8 index price pair (validity not assumed) and size delta; market pools zero (trader cap cannot bind); decided: pnl == uncapped pnl == sign(total)*floor(closed_tokens*|total|/tokens), total = +-(tokens*price_against_trader - size), i.e. a partial close realises the proportional share of the full-close pnl rounded towards zero; failure only from representability
//@ stubs=market/position environment = plain-struct VMarket/VPosition
//@ timeout=1800
#[kani::proof]
fn c11_pnl_uncapped_exact_u8() {
    w8::pnl_uncapped_exact(true);
}

//@ prop=C11 tier=quick kind=hold
//@ enc=PositionExt::pnl_value, Price::pick_price_for_pnl, BaseMarketExt::{pnl,pool_value_without_pnl_for_one_side,open_interest,open_interest_in_tokens}, MarketUtils::cap_pnl, MulDiv::checked_mul_div_with_signed_numerator
//@ bound=width-reduced T=u8, DECIMALS=1: full close of a long position; every u8 position, price, liquidity / open-interest / open-interest-in-tokens pool and trader pnl factor
//@ stubs=market/position environment = plain-struct VMarket/VPosition
//@ timeout=1800
#[kani::proof]
fn c11_full_close_capped_exact_long_u8() {
    w8::full_close_capped_exact(true);
}

//@ prop=C11 tier=quick kind=hold
//@ enc=PositionExt::pnl_value, Price::pick_price_for_pnl, BaseMarketExt::{pnl,pool_value_without_pnl_for_one_side,open_interest,open_interest_in_tokens}, MarketUtils::cap_pnl, MulDiv::checked_mul_div_with_signed_numerator
//@ bound=width-reduced T=u8, DECIMALS=1: full close of a short position; every u8 position, price, liquidity / open-interest / open-interest-in-tokens pool and trader pnl factor
//@ stubs=market/position environment = plain-struct VMarket/VPosition
//@ timeout=1800
#[kani::proof]
fn c11_full_close_capped_exact_short_u8() {
    w8::full_close_capped_exact(false);
}

//@ prop=C11 tier=experimental kind=hold
//@ enc=PositionExt::pnl_value, BaseMarketExt::pnl, MarketUtils::cap_pnl
//@ bound=width-reduced T=u8, DECIMALS=1: any close size; every u8 position, price, pool and trader pnl factor
//@ stubs=market/position environment = plain-struct VMarket/VPosition
//@ timeout=5400 mem=30
#[kani::proof]
fn c11_pnl_le_uncapped_u8() {
    w8::pnl_le_uncapped();
}

//@ prop=C11 tier=thorough kind=hold
//@ enc=PositionExt::pnl_value, Price::pick_price_for_pnl, BaseMarketExt::pnl, MarketUtils::cap_pnl
//@ bound=width-reduced T=u8, DECIMALS=1: full close of a long position; every u8 position, liquidity / open-interest pool and trader pnl factor; two index price pairs p1 <= p2 (both ends ordered), other prices equal; both evaluations must succeed
//@ stubs=market/position environment = plain-struct VMarket/VPosition; by-design exclusion: the credited (capped) pnl is asserted monotone only where the trader cap does not bind, see c11_capped_pnl_monotone_u8
//@ timeout=5400 mem=30
#[kani::proof]
fn c11_pnl_monotone_full_close_long_u8() {
    w8::pnl_monotone_long(true, true);
}

//@ prop=C11 tier=thorough kind=hold
//@ enc=PositionExt::pnl_value, Price::pick_price_for_pnl, BaseMarketExt::pnl, MarketUtils::cap_pnl
//@ bound=width-reduced T=u8, DECIMALS=1: full close of a short position; every u8 position, liquidity / open-interest pool and trader pnl factor; two index price pairs p1 <= p2 (both ends ordered), other prices equal; both evaluations must succeed
//@ stubs=market/position environment = plain-struct VMarket/VPosition; by-design exclusion as in c11_pnl_monotone_full_close_long_u8
//@ timeout=5400 mem=30
#[kani::proof]
fn c11_pnl_monotone_full_close_short_u8() {
    w8::pnl_monotone_short(true, true);
}

//@ prop=C11 tier=experimental kind=hold
//@ enc=PositionExt::pnl_value, Price::pick_price_for_pnl
//@ bound=width-reduced T=u8, DECIMALS=1: any close size; every u8 position; two ordered index price pairs; market pools zero (uncapped branch)
//@ stubs=market/position environment = plain-struct VMarket/VPosition
//@ timeout=5400 mem=30
#[kani::proof]
fn c11_pnl_monotone_uncapped_u8() {
    w8::pnl_monotone(false, false);
}

//@ prop=C11 tier=quick kind=hold
//@ enc=PositionExt::pnl_value, Price::pick_price_for_pnl
//@ bound=width-reduced T=u8, DECIMALS=1: full close, both sides; every u8 position; two index price pairs p1 <= p2 (both ends ordered), other prices equal; market pools empty (the trader cap cannot bind); both evaluations must succeed
//@ stubs=market/position environment = plain-struct VMarket/VPosition; by-design exclusion: with a binding trader cap the credited pnl is not monotone, see c11_capped_pnl_monotone_u8 (the symbolic-market variants are thorough)
#[kani::proof]
fn c11_pnl_monotone_full_close_uncapped_u8() {
    w8::pnl_monotone(false, true);
}

//@ prop=C11 tier=quick kind=finding:c11_capped_pnl_not_monotone
//@ enc=PositionExt::pnl_value, BaseMarketExt::pnl, MarketUtils::cap_pnl
//@ bound=width-reduced T=u8, DECIMALS=1; region: long position, the trader pnl cap binds at one of the two prices; strict clause: pnl(p1) <= pnl(p2) for p1 <= p2
//@ stubs=market/position environment = plain-struct VMarket/VPosition
//@ timeout=1800
#[kani::proof]
fn c11_capped_pnl_monotone_u8() {
    w8::capped_pnl_monotone();
}

//@ prop=C11 tier=experimental kind=hold
//@ enc=PositionExt::pnl_value, Price::pick_price_for_pnl, BaseMarketExt::pnl, MarketUtils::cap_pnl
//@ bound=width-reduced T=u8, DECIMALS=1: every u8 position, market pools, trader pnl factor, size delta; two ordered index price pairs; monotone uncapped pnl always, credited pnl where the cap does not bind
//@ stubs=market/position environment = plain-struct VMarket/VPosition
//@ timeout=5400 mem=30
#[kani::proof]
fn c11_pnl_monotone_in_index_price_u8() {
    w8::pnl_monotone(true, false);
}

//@ prop=C11 tier=experimental kind=hold
//@ enc=PositionExt::{pnl_value,size_delta_in_tokens}, MulDiv::checked_mul_div_with_signed_numerator
//@ bound=width-reduced T=u8, DECIMALS=1: every u8 position, market pools, trader pnl factor, prices and size delta; full close vs. partial close at the same prices
//@ stubs=market/position environment = plain-struct VMarket/VPosition
//@ timeout=5400 mem=30
#[kani::proof]
fn c11_partial_close_is_proportional_u8() {
    w8::partial_close_proportional(true);
}

//@ prop=C11 tier=experimental kind=hold
//@ enc=PositionExt::{pnl_value,size_delta_in_tokens}, BaseMarketExt::pnl, MarketUtils::cap_pnl
//@ bound=width-reduced T=u8, DECIMALS=1: every u8 position, price, size delta, pools and trader pnl factor; compared with the exact composed reference incl. the failure condition
//@ stubs=market/position environment = plain-struct VMarket/VPosition
//@ timeout=5400 mem=30
#[kani::proof]
fn c11_pnl_value_exact_ref_u8() {
    w8::pnl_value_exact(true);
}

//@ prop=C11 tier=experimental kind=hold
//@ enc=PositionExt::{pnl_value,size_delta_in_tokens}, Price::pick_price_for_pnl
//@ bound=width-reduced T=u16, DECIMALS=2: uncapped branch (market pools zero), every u16 position, index price pair and size delta
//@ stubs=market/position environment = plain-struct VMarket/VPosition
//@ timeout=5400 mem=30
#[kani::proof]
fn c11_pnl_uncapped_exact_u16() {
    w16::pnl_uncapped_exact(true);
}

//@ prop=C11 tier=experimental kind=hold
//@ enc=PositionExt::pnl_value, Price::pick_price_for_pnl
//@ bound=width-reduced T=u16, DECIMALS=2: every u16 position, size delta, two ordered index price pairs; market pools zero (uncapped branch)
//@ stubs=market/position environment = plain-struct VMarket/VPosition
//@ timeout=5400 mem=30
#[kani::proof]
fn c11_pnl_monotone_uncapped_u16() {
    w16::pnl_monotone(false, false);
}

