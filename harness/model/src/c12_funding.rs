//! C12 — funding rates stay within bounds and funding indices only grow.
//!
//! Subject: the real generic `UpdateFundingState::{next_funding_factor_per_second,
//! next_funding_amount_per_size, execute}` (crates/model/src/action/update_funding_state.rs),
//! `FundingFeeParams::change` (params/fee.rs), `Unsigned::bound_magnitude` (num.rs) and
//! `PositionExt::pending_funding_fees` (position.rs) over the plain-struct `VMarket` / `VPosition`
//! environment, instantiated at a narrow width. Oracle: exact arithmetic in a wider type.
use crate::vmarket::*;
use gmsol_model::{
    action::update_funding_state::UpdateFundingState,
    params::fee::{FundingFeeParams, FundingRateChangeType},
    price::Prices,
    MarketAction, PerpMarketMutExt, PositionExt,
};

/// Reference change type (0 = no change, 1 = increase, 2 = decrease).
fn ref_change(f_pos: bool, f_neg: bool, long_gt: bool, long_lt: bool, diff_factor_gt_stable: bool, diff_factor_lt_decrease: bool) -> u8 {
    let same_direction = (f_pos && long_gt) || (f_neg && long_lt);
    if same_direction {
        if diff_factor_gt_stable {
            1
        } else if diff_factor_lt_decrease {
            2
        } else {
            0
        }
    } else {
        1
    }
}

fn change_code(c: &FundingRateChangeType) -> u8 {
    match c {
        FundingRateChangeType::NoChange => 0,
        FundingRateChangeType::Increase => 1,
        FundingRateChangeType::Decrease => 2,
    }
}

//@ prop=C12 tier=quick kind=hold
//@ enc=FundingFeeParams::change (instantiated at the production type u64/i64: comparisons only)
//@ bound=none: every i64 stored factor, every u64 open interest pair, diff factor and threshold pair
#[kani::proof]
fn c12_change_type_matches_reference_u64() {
    let stable: u64 = kani::any();
    let decrease: u64 = kani::any();
    let params = FundingFeeParams::<u64>::builder()
        .exponent(kani::any())
        .funding_factor(kani::any())
        .increase_factor_per_second(kani::any())
        .decrease_factor_per_second(kani::any())
        .max_factor_per_second(kani::any())
        .min_factor_per_second(kani::any())
        .threshold_for_stable_funding(stable)
        .threshold_for_decrease_funding(decrease)
        .build();
    let f: i64 = kani::any();
    let (l, s, df): (u64, u64, u64) = (kani::any(), kani::any(), kani::any());
    let got = change_code(&params.change(&f, &l, &s, &df));
    let want = ref_change(f > 0, f < 0, l > s, l < s, df > stable, df < decrease);
    assert!(got == want, "C12: FundingFeeParams::change differs from the skew/threshold rule");
    kani::cover!(got == 0);
    kani::cover!(got == 2);
    kani::cover!(got == 1 && f > 0 && l > s);
    kani::cover!(got == 1 && f < 0 && l > s);
    kani::cover!(got == 1 && f == 0);
    kani::cover!(got == 1 && f < 0 && l < s);
}

macro_rules! bodies {
    ($m:ident, $t:ty, $s:ty, $r:ty, $rs:ty, $d:expr) => {
        pub mod $m {
            use super::*;
            crate::width_prelude!($t, $s, $r, $rs, $d);

            /// `funding_market(1)` uses the concrete exponent 1*UNIT (instead of {0, 1*UNIT} symbolic).
            pub const CONCRETE_UNIT_EXPONENT_WHEN_ONE: bool = false;

            pub fn flat_valid_prices() -> Prices<T> {
                flat_prices(1, 1, 1)
            }

            /// Market with every funding parameter and the stored funding factor symbolic; the exponent
            /// is a whole-unit multiple of at most `max_exp_units` units.
            pub fn funding_market(max_exp_units: R) -> VMarket<T, D> {
                let mut m = VMarket::<T, D>::zero();
                m.funding = VFunding {
                    exponent: kani::any(),
                    funding_factor: kani::any(),
                    increase_factor_per_second: kani::any(),
                    decrease_factor_per_second: kani::any(),
                    max_factor_per_second: kani::any(),
                    min_factor_per_second: kani::any(),
                    threshold_for_stable_funding: kani::any(),
                    threshold_for_decrease_funding: kani::any(),
                };
                if max_exp_units == 1 && CONCRETE_UNIT_EXPONENT_WHEN_ONE {
                    // a single exponent value is passed concretely (prunes the other exponent paths in symex)
                    m.funding.exponent = UNIT as T;
                }
                let e = u(m.funding.exponent);
                kani::assume(e % UNIT == 0 && e / UNIT <= max_exp_units);
                m.funding_factor_per_second = kani::any();
                m
            }

            /// |x| of a value of `S`, in `R`.
            pub fn mag(x: S) -> R {
                x.unsigned_abs() as R
            }

            /// Exact x^(e/UNIT) in fixed point with floor after every multiplication (`None` = a product
            /// does not fit `T`), the documented behaviour of `checked_pow` for whole-unit exponents.
            pub fn ref_pow(x: R, units: R) -> Option<R> {
                let mut ans = UNIT;
                let mut i = 0;
                while i < units {
                    ans = ans * x / UNIT;
                    if ans > TMAX {
                        return None;
                    }
                    i += 1;
                }
                Some(ans)
            }

            pub fn ref_exponent(diff: R, e: R) -> Option<R> {
                if diff < UNIT {
                    Some(0)
                } else if diff == UNIT {
                    Some(UNIT)
                } else if e == 0 {
                    Some(UNIT)
                } else if e == UNIT {
                    Some(diff)
                } else {
                    ref_pow(diff, e / UNIT)
                }
            }

            /// Exact reference of `next_funding_factor_per_second`: `Some((magnitude, longs_pay, next_stored))`,
            /// `None` = failure.
            pub fn reference(mk: &VMarket<T, D>, duration: u64, l: R, s_: R) -> Option<(R, bool, RS)> {
                let p = &mk.funding;
                let (inc, dec, max, min) = (u(p.increase_factor_per_second), u(p.decrease_factor_per_second), u(p.max_factor_per_second), u(p.min_factor_per_second));
                let diff = if l > s_ { l - s_ } else { s_ - l };
                if diff == 0 && inc == 0 {
                    return Some((0, true, 0));
                }
                let total = fit(l + s_)?;
                if total == 0 {
                    return None;
                }
                let dexp = ref_exponent(diff, u(p.exponent))?;
                let dfactor = fit(dexp * UNIT / total)?;
                if inc == 0 {
                    let ffps = fit(dfactor * u(p.funding_factor) / UNIT)?;
                    return Some((if ffps > max { max } else { ffps }, l > s_, 0));
                }
                let f = mk.funding_factor_per_second;
                let fm = mag(f);
                let change = ref_change(f > 0, f < 0, l > s_, l < s_, dfactor > u(p.threshold_for_stable_funding), dfactor < u(p.threshold_for_decrease_funding));
                if duration > TMAX as u64 {
                    return None;
                }
                let dur = duration as R;
                let next: RS = if change == 1 {
                    let v = fit(dfactor * inc / UNIT)?;
                    let iv = fit(v * dur)?;
                    if iv > SMAX as R {
                        return None;
                    }
                    let signed = if l < s_ { -(iv as RS) } else { iv as RS };
                    fit_s(s(f) + signed)?
                } else if change == 2 && fm != 0 {
                    let dv = fit(dec * dur)?;
                    if fm <= dv {
                        if fm > SMAX as R {
                            return None;
                        }
                        if f > 0 { 1 } else { -1 }
                    } else {
                        let decreased = fm - dv;
                        if decreased > SMAX as R {
                            return None;
                        }
                        if f < 0 { -(decreased as RS) } else { decreased as RS }
                    }
                } else {
                    s(f)
                };
                // bound to [0, max], then to [min, max]
                let nm = next.unsigned_abs() as R;
                let b1: RS = if nm > max {
                    if max > SMAX as R {
                        return None;
                    }
                    if next < 0 { -(max as RS) } else { max as RS }
                } else {
                    next
                };
                if min > max {
                    return None;
                }
                let b1m = b1.unsigned_abs() as R;
                let b2: RS = if b1m < min {
                    if min > SMAX as R {
                        return None;
                    }
                    if b1 < 0 { -(min as RS) } else { min as RS }
                } else {
                    b1
                };
                Some((b2.unsigned_abs() as R, b2 > 0, b1))
            }

            /// Bounds and direction only (no arithmetic reference): cheap at u16.
            pub fn next_factor_bounds() {
                let mut mk = funding_market(1);
                let snapshot = mk;
                let (l, s_): (T, T) = (kani::any(), kani::any());
                kani::assume(l > 0 && s_ > 0); // both sides have open interest
                let duration: u64 = kani::any();
                let p = snapshot.funding;
                let (inc, max, min) = (u(p.increase_factor_per_second), u(p.max_factor_per_second), u(p.min_factor_per_second));
                let prices = flat_valid_prices();
                let action = UpdateFundingState::try_new(&mut mk, &prices).unwrap();
                let got = action.next_funding_factor_per_second(duration, &l, &s_);
                if let Ok((m_, longs_pay, next)) = &got {
                    let (m_, longs_pay, next) = (u(*m_), *longs_pay, *next);
                    assert!(m_ <= max, "C12: funding factor per second above the configured maximum");
                    assert!(mag(next) <= max, "C12: stored next funding factor above the configured maximum");
                    if inc != 0 {
                        assert!(min <= max);
                        assert!(m_ >= min, "C12: adaptive funding factor per second below the configured minimum");
                        let nm = mag(next);
                        assert!(m_ == if nm < min { min } else { nm }, "C12: adaptive funding magnitude is not the stored factor clamped to [min, max]");
                        if next != 0 {
                            assert!(longs_pay == (next > 0), "C12: payer side differs from the sign of the funding factor");
                        } else {
                            assert!(longs_pay == (min > 0));
                        }
                    } else {
                        assert!(next == 0, "C12: non-adaptive mode stored a funding factor");
                        if l != s_ {
                            assert!(longs_pay == (l > s_), "C12: without adaptive funding the smaller side pays");
                        } else {
                            assert!(m_ == 0, "C12: balanced open interest pays funding in non-adaptive mode");
                        }
                    }
                }
                kani::cover!(got.is_ok() && inc != 0 && got.as_ref().map_or(false, |g| u(g.0) == min && min > 0 && mag(g.2) < min), "raised to the minimum");
                kani::cover!(got.is_ok() && inc != 0 && got.as_ref().map_or(false, |g| u(g.0) == max && min < max), "capped at the maximum (adaptive)");
                kani::cover!(got.is_ok() && inc == 0 && got.as_ref().map_or(false, |g| u(g.0) == max && max > 0), "capped at the maximum (non-adaptive)");
                kani::cover!(got.is_ok() && inc == 0 && got.as_ref().map_or(false, |g| u(g.0) > 0 && u(g.0) < max && g.1), "non-adaptive, longs pay");
                kani::cover!(got.is_ok() && inc == 0 && got.as_ref().map_or(false, |g| u(g.0) > 0 && !g.1), "non-adaptive, shorts pay");
                kani::cover!(got.is_ok() && inc != 0 && got.as_ref().map_or(false, |g| g.2 < 0 && u(g.0) > min), "adaptive, shorts pay");
                kani::cover!(got.is_err() && inc != 0 && min > max, "min > max fails");
                core::mem::forget(got);
            }

            /// The strict clause "magnitude >= min whenever both sides have open interest", restricted to
            /// the non-adaptive region where the code is known not to apply the minimum.
            pub fn min_bound_in_non_adaptive_mode() {
                let mut mk = funding_market(1);
                let snapshot = mk;
                let (l, s_): (T, T) = (kani::any(), kani::any());
                kani::assume(l > 0 && s_ > 0);
                let duration: u64 = kani::any();
                let p = snapshot.funding;
                kani::assume(u(p.increase_factor_per_second) == 0);
                kani::assume(u(p.min_factor_per_second) <= u(p.max_factor_per_second));
                let prices = flat_valid_prices();
                let action = UpdateFundingState::try_new(&mut mk, &prices).unwrap();
                let got = action.next_funding_factor_per_second(duration, &l, &s_);
                if let Ok((m_, _, _)) = &got {
                    assert!(u(*m_) >= u(p.min_factor_per_second), "C12: non-adaptive funding factor per second below the configured minimum");
                }
                core::mem::forget(got);
            }

            /// Full differential check against the exact reference.
            pub fn next_factor_exact(max_exp_units: R) {
                let mut mk = funding_market(max_exp_units);
                let snapshot = mk;
                let (l, s_): (T, T) = (kani::any(), kani::any());
                let duration: u64 = kani::any();
                let want = reference(&snapshot, duration, u(l), u(s_));
                let prices = flat_valid_prices();
                let action = UpdateFundingState::try_new(&mut mk, &prices).unwrap();
                let got = action.next_funding_factor_per_second(duration, &l, &s_);
                match &got {
                    Ok((m_, longs_pay, next)) => {
                        assert!(want.is_some(), "C12: funding factor computed although the exact computation fails");
                        let w = want.unwrap();
                        assert!(u(*m_) == w.0, "C12: funding factor magnitude differs from the exact reference");
                        assert!(*longs_pay == w.1, "C12: payer side differs from the exact reference");
                        assert!(s(*next) == w.2, "C12: stored next funding factor differs from the exact reference");
                    }
                    Err(_) => assert!(want.is_none(), "C12: funding factor fails where the exact computation is representable"),
                }
                let inc = u(snapshot.funding.increase_factor_per_second);
                let f = snapshot.funding_factor_per_second;
                kani::cover!(got.is_ok() && inc != 0 && want.map_or(false, |w| w.2 > s(f) && f > 0), "increase, longs");
                kani::cover!(got.is_ok() && inc != 0 && want.map_or(false, |w| w.2 < s(f) && f < 0), "increase, shorts");
                kani::cover!(got.is_ok() && inc != 0 && want.map_or(false, |w| w.2 < s(f) && f > 1 && w.2 > 1), "decrease by the rate");
                kani::cover!(got.is_ok() && inc != 0 && want.map_or(false, |w| w.2 == 1 && f > 1), "decrease to the signum");
                kani::cover!(got.is_ok() && inc != 0 && want.map_or(false, |w| w.2 == s(f) && f != 0 && u(l) != u(s_)), "no change");
                kani::cover!(got.is_ok() && inc == 0 && want.map_or(false, |w| w.0 > 0), "non-adaptive");
                kani::cover!(got.is_ok() && want.map_or(false, |w| w.0 > 0) && u(snapshot.funding.exponent) > UNIT && (if l > s_ { u(l) - u(s_) } else { u(s_) - u(l) }) > UNIT, "exponent above one unit");
                kani::cover!(got.is_err() && u(l) > 0 && u(s_) > 0, "fails");
                core::mem::forget(got);
            }

            /// One real `UpdateFundingState::execute` from an arbitrary funding state: the four
            /// funding-per-size and the four claimable-funding-per-size indices never decrease.
            pub fn execute_indices_only_grow(fixed_adjustment: Option<T>) {
                execute_indices_only_grow_mode(fixed_adjustment, None)
            }
            /// `adaptive`: Some(false) fixes increase_factor_per_second = 0 (non-adaptive mode), Some(true)
            /// assumes it non-zero, None leaves it symbolic.
            pub fn execute_indices_only_grow_mode(fixed_adjustment: Option<T>, adaptive: Option<bool>) {
                let mut mk = funding_market(1);
                if fixed_adjustment.is_some() {
                    // cheaper variants: exponent exactly 1*UNIT, passed concretely
                    mk.funding.exponent = UNIT as T;
                }
                match adaptive {
                    Some(false) => mk.funding.increase_factor_per_second = 0,
                    Some(true) => kani::assume(mk.funding.increase_factor_per_second != 0),
                    None => {}
                }
                mk.open_interest = Side2 { long: VPool::any(), short: VPool::any() };
                mk.funding_amount_per_size = Side2 { long: VPool::any(), short: VPool::any() };
                mk.claimable_funding_amount_per_size = Side2 { long: VPool::any(), short: VPool::any() };
                mk.funding_amount_per_size_adjustment = match fixed_adjustment {
                    Some(a) => a,
                    None => kani::any(),
                };
                mk.passed_funding = kani::any();
                let prices: Prices<T> = any_prices(false);
                let pre = mk;
                let r = mk.update_funding(&prices).and_then(|a| a.execute());
                let post = mk;
                let ge = |a: &VPool<T>, b: &VPool<T>| a.long >= b.long && a.short >= b.short;
                assert!(ge(&post.funding_amount_per_size.long, &pre.funding_amount_per_size.long), "C12: funding amount per size (longs) decreased");
                assert!(ge(&post.funding_amount_per_size.short, &pre.funding_amount_per_size.short), "C12: funding amount per size (shorts) decreased");
                assert!(ge(&post.claimable_funding_amount_per_size.long, &pre.claimable_funding_amount_per_size.long), "C12: claimable funding amount per size (longs) decreased");
                assert!(ge(&post.claimable_funding_amount_per_size.short, &pre.claimable_funding_amount_per_size.short), "C12: claimable funding amount per size (shorts) decreased");
                let l = u(pre.open_interest.long.long) + u(pre.open_interest.long.short);
                let s_ = u(pre.open_interest.short.long) + u(pre.open_interest.short.short);
                if let Ok(rep) = &r {
                    // indices move by exactly the reported unsigned deltas
                    let d = |is_long: bool, lc: bool| u(*rep.delta_funding_amount_per_size(is_long, lc));
                    let c = |is_long: bool, lc: bool| u(*rep.delta_claimable_funding_amount_per_size(is_long, lc));
                    assert!(u(post.funding_amount_per_size.long.long) == u(pre.funding_amount_per_size.long.long) + d(true, true));
                    assert!(u(post.funding_amount_per_size.long.short) == u(pre.funding_amount_per_size.long.short) + d(true, false));
                    assert!(u(post.funding_amount_per_size.short.long) == u(pre.funding_amount_per_size.short.long) + d(false, true));
                    assert!(u(post.funding_amount_per_size.short.short) == u(pre.funding_amount_per_size.short.short) + d(false, false));
                    assert!(u(post.claimable_funding_amount_per_size.long.long) == u(pre.claimable_funding_amount_per_size.long.long) + c(true, true));
                    assert!(u(post.claimable_funding_amount_per_size.long.short) == u(pre.claimable_funding_amount_per_size.long.short) + c(true, false));
                    assert!(u(post.claimable_funding_amount_per_size.short.long) == u(pre.claimable_funding_amount_per_size.short.long) + c(false, true));
                    assert!(u(post.claimable_funding_amount_per_size.short.short) == u(pre.claimable_funding_amount_per_size.short.short) + c(false, false));
                    assert!(post.funding_factor_per_second == *rep.next_funding_factor_per_second(), "C12: stored funding factor is not the reported next factor");
                    assert!(mag(post.funding_factor_per_second) <= u(pre.funding.max_factor_per_second) || l == 0 || s_ == 0 || l > TMAX || s_ > TMAX, "C12: stored funding factor above the maximum");
                    // only one side pays and only the other side receives
                    let long_pays = d(true, true) > 0 || d(true, false) > 0;
                    let short_pays = d(false, true) > 0 || d(false, false) > 0;
                    let long_recv = c(true, true) > 0 || c(true, false) > 0;
                    let short_recv = c(false, true) > 0 || c(false, false) > 0;
                    assert!(!(long_pays && short_pays), "C12: both sides pay funding");
                    assert!(!(long_pays && long_recv) && !(short_pays && short_recv), "C12: the paying side also receives funding");
                    if l == 0 || s_ == 0 {
                        assert!(!long_pays && !short_pays && !long_recv && !short_recv, "C12: funding charged with an empty side");
                        assert!(post.funding_factor_per_second == 0);
                    }
                    if u(pre.funding.increase_factor_per_second) == 0 && (long_pays || short_pays) {
                        assert!(long_pays == (l > s_), "C12: without adaptive funding the smaller side pays");
                    }
                    kani::cover!(long_pays && short_recv, "longs pay shorts");
                    kani::cover!(short_pays && long_recv, "shorts pay longs");
                    kani::cover!(d(true, true) > 0 && d(true, false) > 0, "both collateral kinds pay");
                }
                // nothing else is touched
                let mut expect = pre;
                expect.funding_amount_per_size = post.funding_amount_per_size;
                expect.claimable_funding_amount_per_size = post.claimable_funding_amount_per_size;
                expect.funding_factor_per_second = post.funding_factor_per_second;
                expect.passed_funding = post.passed_funding;
                assert!(post == expect, "C12: funding update touched unrelated market state");
                kani::cover!(r.is_err() && l > 0 && s_ > 0 && prices.is_valid(), "fails");
                core::mem::forget(r);
            }

            /// `pending_funding_fees`: unsigned, exact, and an error (never a wrapped value) when the
            /// position's index is ahead of the market's.
            pub fn pending_funding_fees(fixed_adjustment: Option<T>) {
                let mut mk = VMarket::<T, D>::zero();
                mk.funding_amount_per_size = Side2 { long: VPool::any(), short: VPool::any() };
                mk.claimable_funding_amount_per_size = Side2 { long: VPool::any(), short: VPool::any() };
                mk.funding_amount_per_size_adjustment = match fixed_adjustment {
                    Some(a) => a,
                    None => kani::any(),
                };
                let mut pos = VPosition::<T, D>::zero(mk, kani::any(), kani::any());
                pos.size_in_usd = kani::any();
                pos.funding_fee_amount_per_size = kani::any();
                pos.claimable_funding_fee_amount_per_size = Side2::any();

                let adj = u(mk.funding_amount_per_size_adjustment);
                let size = u(pos.size_in_usd);
                let latest = u(*mk.funding_amount_per_size.get(pos.is_long).side(pos.is_collateral_token_long));
                let latest_cl = u(mk.claimable_funding_amount_per_size.get(pos.is_long).long);
                let latest_cs = u(mk.claimable_funding_amount_per_size.get(pos.is_long).short);
                let (p0, pl, ps) = (u(pos.funding_fee_amount_per_size), u(pos.claimable_funding_fee_amount_per_size.long), u(pos.claimable_funding_fee_amount_per_size.short));
                let one = |latest: R, mine: R, up: bool| -> Option<R> {
                    let diff = latest.checked_sub(mine)?;
                    let den = fit(adj * UNIT)?;
                    if den == 0 {
                        return None;
                    }
                    fit(if up { mul_div_ceil(size, diff, den) } else { mul_div_floor(size, diff, den) })
                };
                let want = (|| Some((one(latest, p0, true)?, one(latest_cl, pl, false)?, one(latest_cs, ps, false)?)))();
                let got = pos.pending_funding_fees();
                match &got {
                    Ok(f) => {
                        assert!(latest >= p0 && latest_cl >= pl && latest_cs >= ps, "C12: pending funding computed from an index behind the position's");
                        assert!(want == Some((u(*f.amount()), u(*f.claimable_long_token_amount()), u(*f.claimable_short_token_amount()))), "C12: pending funding fees differ from ceil/floor(size*index_diff/(adjustment*UNIT))");
                    }
                    Err(_) => assert!(want.is_none(), "C12: pending funding fees fail although every index is ahead and the result is representable"),
                }
                if latest >= p0 && latest_cl >= pl && latest_cs >= ps && adj > 0 && adj * UNIT <= TMAX {
                    // sufficient for success: amounts bounded by size when diff <= adj*UNIT
                    if latest - p0 <= adj * UNIT && latest_cl - pl <= adj * UNIT && latest_cs - ps <= adj * UNIT {
                        assert!(got.is_ok(), "C12: pending funding fees fail for an index ahead of the position's");
                    }
                }
                kani::cover!(got.is_ok() && want.map_or(false, |w| w.0 > 0 && w.1 > 0 && w.2 > 0), "all three amounts non-zero");
                kani::cover!(got.is_ok() && want.map_or(false, |w| w.0 > 1) && (size * (latest - p0)) % (adj * UNIT) != 0, "fee rounded up");
                kani::cover!(got.is_err() && latest < p0, "position index ahead of the market: error");
                kani::cover!(got.is_err() && latest >= p0 && latest_cl < pl, "claimable index ahead: error");
                kani::cover!(got.is_ok() && pos.is_long && !pos.is_collateral_token_long, "long with short collateral");
                kani::cover!(got.is_ok() && !pos.is_long && pos.is_collateral_token_long, "short with long collateral");
                core::mem::forget(got);
            }
        }
    };
}
bodies!(w8, u8, i8, u32, i32, 1);
bodies!(w16, u16, i16, u32, i32, 2);

//@ prop=C12 tier=quick kind=hold
//@ enc=UpdateFundingState::{try_new,next_funding_factor_per_second}, FundingFeeParams::change, Unsigned::bound_magnitude, utils::{apply_exponent_factor,div_to_factor,apply_factor}
//@ bound=width-reduced T=u16, DECIMALS=2 (UNIT 100): every u16 long/short open interest > 0, every funding parameter, every i16 stored factor, every u64 duration; exponent in {0, 1*UNIT}
//@ stubs=market environment = plain-struct VMarket; by-design exclusion: the minimum bound is asserted only in adaptive mode (increase_factor_per_second != 0), see c12_min_bound_non_adaptive_u16
#[kani::proof]
#[kani::unwind(3)]
fn c12_next_factor_within_bounds_u16() {
    w16::next_factor_bounds();
}

//@ prop=C12 tier=quick kind=finding:c12_min_not_applied_non_adaptive
//@ enc=UpdateFundingState::next_funding_factor_per_second
//@ bound=width-reduced T=u16, DECIMALS=2; region: increase_factor_per_second == 0, both open interests > 0, min <= max; strict clause: magnitude >= min_factor_per_second
//@ stubs=market environment = plain-struct VMarket
#[kani::proof]
#[kani::unwind(3)]
fn c12_min_bound_non_adaptive_u16() {
    w16::min_bound_in_non_adaptive_mode();
}

//@ prop=C12 tier=quick kind=hold
//@ enc=UpdateFundingState::next_funding_factor_per_second, FundingFeeParams::change, Unsigned::bound_magnitude, utils::{apply_exponent_factor,div_to_factor,apply_factor}, Fixed::checked_pow (integer exponent loop)
//@ bound=width-reduced T=u8, DECIMALS=1 (UNIT 10): every u8 open interest pair (incl. zero), funding parameter, i8 stored factor, u64 duration; exponent in {0,1,2}*UNIT (unwind 4); compared with the exact reference incl. the failure condition
//@ stubs=market environment = plain-struct VMarket
#[kani::proof]
#[kani::unwind(4)]
fn c12_next_factor_exact_ref_u8() {
    w8::next_factor_exact(2);
}

//@ prop=C12 tier=experimental kind=hold
//@ enc=UpdateFundingState::next_funding_factor_per_second, FundingFeeParams::change, Unsigned::bound_magnitude, utils::{apply_exponent_factor,div_to_factor,apply_factor}
//@ bound=width-reduced T=u16, DECIMALS=2: every u16/i16 value, u64 duration; exponent in {0,1,2}*UNIT (unwind 4); compared with the exact reference incl. the failure condition
//@ stubs=market environment = plain-struct VMarket
//@ timeout=5400 mem=30
#[kani::proof]
#[kani::unwind(4)]
fn c12_next_factor_exact_ref_u16() {
    w16::next_factor_exact(2);
}

//@ prop=C12 tier=thorough kind=hold
//@ enc=UpdateFundingState::{execute,next_funding_amount_per_size,next_funding_factor_per_second,set_deltas}, pack_to_funding_amount_per_size, PerpMarketMutExt::{update_funding,apply_delta_to_funding_amount_per_size,apply_delta_to_claimable_funding_amount_per_size}, Prices::validate
//@ bound=width-reduced T=u8, DECIMALS=1: every u8 open-interest pool, funding index pool, funding parameter, price (validity decided by the code), i8 stored factor, u64 elapsed time; funding adjustment fixed to 1 (a program constant); exponent 1*UNIT; one execution from an arbitrary state (P2 step)
//@ stubs=market environment = plain-struct VMarket; the funding clock is the field passed_funding
//@ timeout=5400 mem=30
#[kani::proof]
#[kani::unwind(5)]
fn c12_execute_indices_only_grow_u8() {
    w8::execute_indices_only_grow(Some(1));
}

//@ prop=C12 tier=thorough kind=hold
//@ enc=UpdateFundingState::{execute,next_funding_amount_per_size,next_funding_factor_per_second,set_deltas}, pack_to_funding_amount_per_size, PerpMarketMutExt::{update_funding,apply_delta_to_funding_amount_per_size,apply_delta_to_claimable_funding_amount_per_size}
//@ bound=width-reduced T=u8, DECIMALS=1: as c12_execute_indices_only_grow_u8 with every u8 funding adjustment
//@ stubs=market environment = plain-struct VMarket
//@ timeout=5400 mem=30
#[kani::proof]
#[kani::unwind(5)]
fn c12_execute_indices_only_grow_any_adj_u8() {
    w8::execute_indices_only_grow(None);
}

//@ prop=C12 tier=quick kind=hold
//@ enc=PositionExt::pending_funding_fees, unpack_to_funding_amount_delta, PerpMarketExt::{funding_fee_amount_per_size,claimable_funding_fee_amount_per_size}
//@ bound=width-reduced T=u8, DECIMALS=1: every u8 market index, position index, size and adjustment, all four side/collateral combinations
//@ stubs=market/position environment = plain-struct VMarket/VPosition
#[kani::proof]
fn c12_pending_funding_fees_exact_u8() {
    w8::pending_funding_fees(None);
}

//@ prop=C12 tier=quick kind=hold
//@ enc=PositionExt::pending_funding_fees, unpack_to_funding_amount_delta, PerpMarketExt::{funding_fee_amount_per_size,claimable_funding_fee_amount_per_size}
//@ bound=width-reduced T=u16, DECIMALS=2: every u16 market index, position index and size, all four side/collateral combinations; funding adjustment fixed to 10 (divisor 1000; the adjustment is a program constant)
//@ stubs=market/position environment = plain-struct VMarket/VPosition
#[kani::proof]
fn c12_pending_funding_fees_exact_u16() {
    w16::pending_funding_fees(Some(10));
}

//@ prop=C12 tier=experimental kind=hold
//@ enc=PositionExt::pending_funding_fees, unpack_to_funding_amount_delta
//@ bound=width-reduced T=u16, DECIMALS=2: every u16 market index, position index, size and adjustment
//@ stubs=market/position environment = plain-struct VMarket/VPosition
//@ timeout=5400 mem=30
#[kani::proof]
fn c12_pending_funding_fees_any_adjustment_u16() {
    w16::pending_funding_fees(None);
}


// The same statement is a clause of C08 (claimable funding is unpacked rounded DOWN, the payer's
// fee rounded UP, so claimables stay backed); it is checked under C08 as well since a seeded
// change of the claimable rounding was missed by the C08 ledger harnesses (which state the
// pack/unpack inequality on aggregates and do not call `pending_funding_fees`).
//@ prop=C08 tier=quick kind=hold
//@ enc=PositionExt::pending_funding_fees, unpack_to_funding_amount_delta, PerpMarketExt::{funding_fee_amount_per_size,claimable_funding_fee_amount_per_size}
//@ bound=width-reduced T=u8, DECIMALS=1: every u8 market index, position index, size and adjustment, all four side/collateral combinations
//@ stubs=market/position environment = plain-struct VMarket/VPosition
#[kani::proof]
fn c08_pending_funding_fees_rounding_u8() {
    w8::pending_funding_fees(None);
}
