//! C03 — price impact penalises imbalance and cannot be farmed by round trips.
//!
//! Subject: the real generic `PoolDelta::{try_new, try_from_delta_amounts, price_impact}`
//! (crates/model/src/pool/delta.rs), `PriceImpactParams::adjusted_factors`
//! (params/price_impact.rs), `utils::apply_factors` with whole-unit exponents (utils.rs / fixed.rs),
//! `SwapMarketExt::swap_impact_value` (market/swap.rs) and `PositionExt::position_price_impact`
//! (position.rs), instantiated at a narrow width. Oracle: exact arithmetic in a wider type.
use crate::vmarket::*;
use gmsol_model::{
    params::PriceImpactParams,
    pool::delta::{BalanceChange, PoolDelta, PriceImpact},
    BalanceExt, PositionExt, SwapMarketExt,
};

//@ prop=C03 tier=quick kind=hold
//@ enc=PriceImpactParams::adjusted_factors (instantiated at the production type u64: comparisons only)
//@ bound=none: every u64 positive/negative factor pair
#[kani::proof]
fn c03_adjusted_factors_cap_positive_u64() {
    let (p, n): (u64, u64) = (kani::any(), kani::any());
    let params = PriceImpactParams::<u64>::builder().exponent(kani::any()).positive_factor(p).negative_factor(n).build();
    let (ap, an) = params.adjusted_factors();
    assert!(*ap <= *an, "C03: adjusted positive impact factor exceeds the negative one");
    assert!(*an == n, "C03: the negative impact factor was changed");
    assert!(*ap == if p > n { n } else { p }, "C03: adjusted positive factor is not min(positive, negative)");
    kani::cover!(p > n);
    kani::cover!(p < n);
}

pub fn bc_code(b: BalanceChange) -> u8 {
    match b {
        BalanceChange::Unchanged => 0,
        BalanceChange::Worsened => 1,
        BalanceChange::Improved => 2,
    }
}

macro_rules! bodies {
    ($m:ident, $t:ty, $s:ty, $r:ty, $rs:ty, $d:expr) => {
        pub mod $m {
            use super::*;
            crate::width_prelude!($t, $s, $r, $rs, $d);

            /// Symbolic factors; the exponent is a whole-unit multiple in the given range (a single value is
            /// passed concretely, which lets symbolic execution prune the other exponent paths).
            pub fn any_params(min_exp_units: R, max_exp_units: R) -> PriceImpactParams<T> {
                let e: T = if min_exp_units == max_exp_units { (min_exp_units * UNIT) as T } else { kani::any() };
                kani::assume(u(e) % UNIT == 0 && u(e) / UNIT >= min_exp_units && u(e) / UNIT <= max_exp_units);
                PriceImpactParams::builder().exponent(e).positive_factor(kani::any()).negative_factor(kani::any()).build()
            }

            /// floor-after-every-multiplication power, as documented for whole-unit exponents.
            pub fn ref_pow(x: R, units: R) -> Option<R> {
                let mut ans = UNIT;
                let mut i = 0;
                while i < units {
                    ans = ans * x / UNIT;
                    if ans > TMAX {
                        return None;
                    }
                    i += 1;
                }
                Some(ans)
            }

            /// `apply_factors(v, f, e)` = floor(v^e * f / UNIT) with the GMX conventions (v < 1 unit -> 0).
            pub fn ref_apply_factors(v: R, f: R, e: R) -> Option<R> {
                let p = if v < UNIT {
                    0
                } else if v == UNIT {
                    UNIT
                } else if e == 0 {
                    UNIT
                } else if e == UNIT {
                    v
                } else {
                    ref_pow(v, e / UNIT)?
                };
                fit(p * f / UNIT)
            }

            pub struct RefImpact {
                pub value: RS,
                pub bc: u8,
                pub same_side: bool,
                pub initial: R,
                pub next: R,
            }

            /// Exact reference of `PoolDelta::try_new(..).price_impact(..)` on USD values `(l, s_)` with
            /// signed USD deltas; `None` = failure.
            pub fn ref_impact(l: R, s_: R, dl: RS, ds: RS, p: &PriceImpactParams<T>) -> Option<RefImpact> {
                let nl = (l as RS) + dl;
                let ns = (s_ as RS) + ds;
                if nl < 0 || ns < 0 || nl > TMAX as RS || ns > TMAX as RS {
                    return None;
                }
                let (nl, ns) = (nl as R, ns as R);
                let initial = if l > s_ { l - s_ } else { s_ - l };
                let next = if nl > ns { nl - ns } else { ns - nl };
                let bc = if next == initial { 0 } else if next > initial { 1 } else { 2 };
                let same_side = (l <= s_) == (nl <= ns);
                let (pf, nf, e) = (u(*p.positive_factor()), u(*p.negative_factor()), u(*p.exponent()));
                let (pos, neg) = if pf > nf { (nf, nf) } else { (pf, nf) };
                let (a, b, positive) = if same_side {
                    let positive = next < initial;
                    let f = if positive { pos } else { neg };
                    (ref_apply_factors(initial, f, e)?, ref_apply_factors(next, f, e)?, positive)
                } else {
                    let a = ref_apply_factors(initial, pos, e)?;
                    let b = ref_apply_factors(next, neg, e)?;
                    (a, b, a > b)
                };
                let d = if a > b { a - b } else { b - a };
                if d > SMAX as R {
                    return None;
                }
                Some(RefImpact { value: if positive { d as RS } else { -(d as RS) }, bc, same_side, initial, next })
            }

            pub fn any_pool_and_prices(max_price: R) -> (VPool<T>, T, T) {
                let pool = VPool::<T>::any();
                let (pl, ps): (T, T) = (kani::any(), kani::any());
                kani::assume(u(pl) <= max_price && u(ps) <= max_price);
                (pool, pl, ps)
            }

            /// USD value of a signed token delta (`checked_mul_with_signed`): magnitude must fit `S`.
            pub fn ref_delta_value(price: R, d: S) -> Option<RS> {
                let m = (d.unsigned_abs() as R) * price;
                if m > SMAX as R {
                    return None;
                }
                Some(if d < 0 { -(m as RS) } else { m as RS })
            }

            /// `try_from_delta_amounts`: pool values, delta values, |diff| before/after and the rebalance
            /// kind are exact, and it fails exactly when a value is not representable.
            pub fn pool_delta_values(max_price: R) {
                let (pool, pl, ps) = any_pool_and_prices(max_price);
                let (dl, ds): (S, S) = (kani::any(), kani::any());
                let want = (|| {
                    let l = fit(u(pool.long) * u(pl))?;
                    let s_ = fit(u(pool.short) * u(ps))?;
                    let dlv = ref_delta_value(u(pl), dl)?;
                    let dsv = ref_delta_value(u(ps), ds)?;
                    let nl = (l as RS) + dlv;
                    let ns = (s_ as RS) + dsv;
                    if nl < 0 || ns < 0 || nl > TMAX as RS || ns > TMAX as RS {
                        return None;
                    }
                    Some((l, s_, dlv, dsv, nl as R, ns as R))
                })();
                let got = PoolDelta::try_from_delta_amounts(&pool, &dl, &ds, &pl, &ps);
                match &got {
                    Ok(d) => {
                        assert!(want.is_some(), "C03: pool delta built although a value is not representable");
                        let (l, s_, dlv, dsv, nl, ns) = want.unwrap();
                        assert!(s(*d.delta().long_value()) == dlv && s(*d.delta().short_value()) == dsv, "C03: delta USD values are not price * signed amount");
                        assert!(u(d.initial_diff_value()) == if l > s_ { l - s_ } else { s_ - l }, "C03: initial diff value is not |long value - short value|");
                        assert!(u(d.next_diff_value()) == if nl > ns { nl - ns } else { ns - nl }, "C03: next diff value is not |next long value - next short value|");
                        assert!(d.is_same_side_rebalance() == ((l <= s_) == (nl <= ns)), "C03: rebalance kind differs from the side comparison");
                        assert!(*d.long_token_price() == pl && *d.short_token_price() == ps);
                        kani::cover!(!d.is_same_side_rebalance() && dlv < 0 && dsv > 0, "cross-over, long out / short in");
                        kani::cover!(d.is_same_side_rebalance() && dlv > 0 && dsv < 0 && u(pl) > 1 && u(ps) > 1, "same side");
                    }
                    Err(_) => assert!(want.is_none(), "C03: pool delta fails although every value is representable"),
                }
                kani::cover!(got.is_err() && u(pool.long) * u(pl) <= TMAX && u(pool.short) * u(ps) <= TMAX, "fails on the delta");
                core::mem::forget(got);
            }

            /// Differential check of `try_new` + `price_impact` on USD values against the exact
            /// reference, plus the sign clause (with the keyed by-design exclusion). `only_same_side`
            /// restricts the case (the two cases are run as separate harnesses).
            /// Returns `(ok, reference)` for the callers' witnesses.
            pub fn price_impact_exact_core(min_exp_units: R, max_exp_units: R, only_same_side: bool) -> (bool, Option<RefImpact>, PriceImpactParams<T>) {
                let pool = VPool::<T>::any();
                let (dl, ds): (S, S) = (kani::any(), kani::any());
                {
                    let nl = (u(pool.long) as RS) + s(dl);
                    let ns = (u(pool.short) as RS) + s(ds);
                    kani::assume(((u(pool.long) <= u(pool.short)) == (nl <= ns)) == only_same_side);
                }
                let params = any_params(min_exp_units, max_exp_units);
                let one: T = 1;
                let want = ref_impact(u(pool.long), u(pool.short), s(dl), s(ds), &params);
                let got = PoolDelta::try_new(&pool, dl, ds, &one, &one).and_then(|d| d.price_impact::<D>(&params));
                match &got {
                    Ok(imp) => {
                        assert!(want.is_some(), "C03: price impact computed although the exact computation fails");
                        let w = want.as_ref().unwrap();
                        assert!(w.same_side == only_same_side);
                        assert!(bc_code(imp.balance_change) == w.bc, "C03: balance change kind differs from |next diff| vs |initial diff|");
                        assert!(s(imp.value) == w.value, "C03: price impact differs from the exact reference");
                        // sign clause
                        if w.bc == 1 {
                            assert!(imp.value <= 0, "C03: a change that worsens the balance received a positive price impact");
                        }
                        if w.bc == 2 && w.same_side {
                            assert!(imp.value >= 0, "C03: a same-side change that improves the balance received a negative price impact");
                        }
                        if w.bc == 0 {
                            assert!(imp.value <= 0, "C03: an unchanged balance received a positive price impact");
                        }
                    }
                    Err(_) => assert!(want.is_none(), "C03: price impact fails where the exact computation is representable"),
                }
                let ok = got.is_ok();
                core::mem::forget(got);
                (ok, want, params)
            }

            pub fn price_impact_exact_same_side(min_exp_units: R, max_exp_units: R) {
                let (ok, want, params) = price_impact_exact_core(min_exp_units, max_exp_units, true);
                kani::cover!(ok && want.as_ref().map_or(false, |w| w.bc == 1 && w.value < 0), "worsened, negative impact");
                kani::cover!(ok && want.as_ref().map_or(false, |w| w.bc == 2 && w.value > 0), "improved, positive impact");
                kani::cover!(ok && want.as_ref().map_or(false, |w| w.bc == 0 && w.initial > UNIT), "unchanged");
                kani::cover!(ok && want.as_ref().map_or(false, |w| w.value > 0) && u(*params.positive_factor()) > u(*params.negative_factor()), "positive factor capped");
                kani::cover!(ok && want.as_ref().map_or(false, |w| w.value < -1 && w.initial > UNIT && w.next > UNIT), "both diffs above one unit");
                kani::cover!(!ok, "fails");
            }

            pub fn price_impact_exact_cross_over(min_exp_units: R, max_exp_units: R) {
                let (ok, want, params) = price_impact_exact_core(min_exp_units, max_exp_units, false);
                kani::cover!(ok && want.as_ref().map_or(false, |w| w.bc == 1 && w.value < 0), "worsened");
                kani::cover!(ok && want.as_ref().map_or(false, |w| w.bc == 2 && w.value > 0), "improved, positive");
                kani::cover!(ok && want.as_ref().map_or(false, |w| w.bc == 2 && w.value < 0), "improved, negative (by design)");
                kani::cover!(ok && want.as_ref().map_or(false, |w| w.bc == 0 && w.initial > 0), "unchanged");
                kani::cover!(ok && want.as_ref().map_or(false, |w| w.value > 0) && u(*params.positive_factor()) > u(*params.negative_factor()), "positive factor capped");
                kani::cover!(!ok, "fails");
            }

            /// `utils::apply_factors` against the exact reference (whole-unit exponents).
            pub fn apply_factors_exact(min_exp_units: R, max_exp_units: R) {
                let (v, f): (T, T) = (kani::any(), kani::any());
                let params = any_params(min_exp_units, max_exp_units);
                let e = *params.exponent();
                let want = ref_apply_factors(u(v), u(f), u(e));
                let got = gmsol_model::utils::apply_factors::<T, D>(v, f, e);
                match &got {
                    Ok(x) => assert!(want == Some(u(*x)), "C03: apply_factors differs from floor(v^e * f / UNIT)"),
                    Err(_) => assert!(want.is_none(), "C03: apply_factors fails where the exact result is representable"),
                }
                kani::cover!(got.is_ok() && u(e) == 2 * UNIT && u(v) > UNIT && u(f) > 0 && want.map_or(false, |w| w > 0), "squared");
                kani::cover!(got.is_ok() && u(e) == UNIT && u(v) > UNIT && want.map_or(false, |w| w > 0), "linear");
                kani::cover!(got.is_ok() && u(v) < UNIT && u(v) > 0 && u(f) > 0, "below one unit: zero");
                kani::cover!(got.is_err() && u(v) > UNIT, "overflow fails");
                core::mem::forget(got);
            }

            /// One `try_new` + `price_impact` on USD values directly (prices 1):
            /// `Some((value, initial, next, same_side, bc))` when the real computation succeeds.
            pub fn impact_on_values(params: &PriceImpactParams<T>) -> Option<(S, R, R, bool, u8)> {
                let pool = VPool::<T>::any();
                let (dl, ds): (S, S) = (kani::any(), kani::any());
                let one: T = 1;
                let l = u(pool.long);
                let s_ = u(pool.short);
                let got = PoolDelta::try_new(&pool, dl, ds, &one, &one).and_then(|d| d.price_impact::<D>(params));
                let out = match &got {
                    Ok(imp) => {
                        let nl = ((l as RS) + s(dl)) as R;
                        let ns = ((s_ as RS) + s(ds)) as R;
                        let initial = if l > s_ { l - s_ } else { s_ - l };
                        let next = if nl > ns { nl - ns } else { ns - nl };
                        Some((imp.value, initial, next, (l <= s_) == (nl <= ns), bc_code(imp.balance_change)))
                    }
                    Err(_) => None,
                };
                core::mem::forget(got);
                out
            }

            /// Sign clause (cheap enough for wider types), with the keyed by-design exclusion.
            pub fn price_impact_sign(min_exp_units: R, max_exp_units: R) {
                let params = any_params(min_exp_units, max_exp_units);
                if let Some((value, initial, next, same_side, bc)) = impact_on_values(&params) {
                    assert!(bc == if next == initial { 0 } else if next > initial { 1 } else { 2 }, "C03: balance change kind differs from |next diff| vs |initial diff|");
                    if next >= initial {
                        assert!(value <= 0, "C03: a change that does not improve the balance received a positive price impact");
                    }
                    if next < initial && same_side {
                        assert!(value >= 0, "C03: a same-side change that improves the balance received a negative price impact");
                    }
                    kani::cover!(next > initial && same_side && value < 0, "worsened same side");
                    kani::cover!(next > initial && !same_side && value < 0, "worsened cross-over");
                    kani::cover!(next < initial && same_side && value > 0, "improved same side");
                    kani::cover!(next < initial && !same_side && value > 0, "improved cross-over positive");
                    kani::cover!(u(*params.exponent()) > UNIT && value < -1 && initial > UNIT, "exponent above one unit");
                }
            }

            /// The strict clause inside the keyed region (improved AND cross-over).
            pub fn improved_cross_over_sign(min_exp_units: R, max_exp_units: R) {
                let params = any_params(min_exp_units, max_exp_units);
                if let Some((value, initial, next, same_side, _)) = impact_on_values(&params) {
                    kani::assume(next < initial && !same_side);
                    assert!(value >= 0, "C03: a cross-over change that improves the balance received a negative price impact");
                }
            }

            /// Apply a balance change (USD values), then its exact reverse on the resulting pool; both legs
            /// through the real code. `Some((same_side, impact1, impact2))` when both legs succeed.
            pub fn round_trip_legs(params: &PriceImpactParams<T>, only_same_side: Option<bool>) -> Option<(bool, RS, RS)> {
                let pool = VPool::<T>::any();
                let (dl, ds): (S, S) = (kani::any(), kani::any());
                kani::assume(dl != S::MIN && ds != S::MIN);
                if let Some(ss) = only_same_side {
                    let nl = (u(pool.long) as RS) + s(dl);
                    let ns = (u(pool.short) as RS) + s(ds);
                    kani::assume(((u(pool.long) <= u(pool.short)) == (nl <= ns)) == ss);
                }
                let one: T = 1;
                let mut out = None;
                let leg1 = PoolDelta::try_new(&pool, dl, ds, &one, &one);
                if let Ok(d1) = leg1 {
                    let same_side = d1.is_same_side_rebalance();
                    let i1 = d1.price_impact::<D>(params);
                    // the pool after the change (leg 1 succeeded, so both sums are representable)
                    let nl = (u(pool.long) as RS) + s(dl);
                    let ns = (u(pool.short) as RS) + s(ds);
                    assert!(nl >= 0 && ns >= 0 && nl <= TMAX as RS && ns <= TMAX as RS);
                    let pool2 = VPool::<T> { long: nl as T, short: ns as T };
                    let leg2 = PoolDelta::try_new(&pool2, -dl, -ds, &one, &one);
                    assert!(leg2.is_ok(), "C03: the exact reverse of an applicable change is not applicable");
                    if let (Ok(i1), Ok(d2)) = (&i1, leg2) {
                        assert!(d2.is_same_side_rebalance() == same_side, "C03: the reverse change is classified differently");
                        let i2 = d2.price_impact::<D>(params);
                        if let Ok(i2) = &i2 {
                            out = Some((same_side, s(i1.value), s(i2.value)));
                        }
                        core::mem::forget(i2);
                    }
                    core::mem::forget(i1);
                }
                out
            }

            pub fn round_trip_same_side(min_exp_units: R, max_exp_units: R) {
                let params = any_params(min_exp_units, max_exp_units);
                if let Some((same_side, v1, v2)) = round_trip_legs(&params, Some(true)) {
                    let sum = v1 + v2;
                    assert!(same_side);
                    assert!(sum <= 1, "C03: a round trip yields a total price impact above the rounding slack of one unit");
                    kani::cover!(sum < -1 && v1 > 0, "improving first");
                    kani::cover!(sum < -1 && v2 > 0, "worsening first");
                    kani::cover!(sum == 0 && v1 > 1, "zero-sum round trip with equal factors");
                }
            }

            pub fn round_trip_cross_over(min_exp_units: R, max_exp_units: R) {
                let params = any_params(min_exp_units, max_exp_units);
                if let Some((same_side, v1, v2)) = round_trip_legs(&params, Some(false)) {
                    let sum = v1 + v2;
                    assert!(!same_side);
                    assert!(sum <= 0, "C03: a cross-over round trip yields a positive total price impact");
                    kani::cover!(sum < 0 && v1 > 0, "positive first leg");
                    kani::cover!(sum < 0 && v2 > 0, "positive second leg");
                    kani::cover!(sum == 0 && v1 > 0, "zero-sum cross-over round trip");
                }
            }

            /// Both cases in one harness (thorough tier).
            pub fn round_trip(min_exp_units: R, max_exp_units: R) {
                let params = any_params(min_exp_units, max_exp_units);
                if let Some((same_side, v1, v2)) = round_trip_legs(&params, None) {
                    let sum = v1 + v2;
                    assert!(sum <= 1, "C03: a round trip yields a total price impact above the rounding slack of one unit");
                    if !same_side {
                        assert!(sum <= 0, "C03: a cross-over round trip yields a positive total price impact");
                    }
                    kani::cover!(same_side && sum < -1 && v1 > 0, "same-side round trip, improving first");
                    kani::cover!(!same_side && sum < 0 && v1 > 0, "cross-over round trip with a positive leg");
                }
            }

            /// The strict clause inside the keyed region (same-side rebalance).
            pub fn round_trip_strict_same_side(min_exp_units: R, max_exp_units: R) {
                let params = any_params(min_exp_units, max_exp_units);
                if let Some((_, v1, v2)) = round_trip_legs(&params, Some(true)) {
                    assert!(v1 + v2 <= 0, "C03: a same-side round trip yields a positive total price impact");
                }
            }

            fn swap_market() -> VMarket<T, D> {
                let mut m = VMarket::<T, D>::zero();
                m.liquidity = VPool::any();
                m.vi_swaps = if kani::any() { Some(VPool::any()) } else { None };
                m
            }

            /// `swap_impact_value`: the virtual inventory can only lower the impact; with `exact_min` the
            /// result is compared with min(real, exact reference of the virtual leg).
            /// Returns (without, with, has_virtual) values for the callers' witnesses.
            pub fn swap_virtual_impact_core(min_exp_units: R, max_exp_units: R, max_price: R, exact_min: bool) -> (Option<S>, Option<S>, bool) {
                let mut m = swap_market();
                let params = any_params(min_exp_units, max_exp_units);
                m.swap_impact_params = VImpact { exponent: *params.exponent(), positive_factor: *params.positive_factor(), negative_factor: *params.negative_factor() };
                let (pl, ps): (T, T) = (kani::any(), kani::any());
                kani::assume(u(pl) <= max_price && u(ps) <= max_price);
                let (dl, ds): (S, S) = (kani::any(), kani::any());
                let delta = m.liquidity.pool_delta_with_amounts(&dl, &ds, &pl, &ps);
                let mut out = (None, None, m.vi_swaps.is_some());
                if let Ok(delta) = delta {
                    let without = m.swap_impact_value(&delta, false);
                    let with = m.swap_impact_value(&delta, true);
                    if let (Ok(w), Ok(v)) = (&without, &with) {
                        assert!(v.value <= w.value, "C03: virtual inventory raised the swap price impact");
                        if w.value >= 0 || m.vi_swaps.is_none() {
                            assert!(v.value == w.value && bc_code(v.balance_change) == bc_code(w.balance_change), "C03: virtual inventory changed a non-negative swap price impact");
                        } else if exact_min {
                            // exact reference of the virtual leg: the virtual pool valued at the same prices,
                            // moved by the same USD deltas
                            let vi = m.vi_swaps.unwrap();
                            let virt = (|| {
                                let l = fit(u(vi.long) * u(pl))?;
                                let s_ = fit(u(vi.short) * u(ps))?;
                                ref_impact(l, s_, s(*delta.delta().long_value()), s(*delta.delta().short_value()), &params)
                            })();
                            assert!(virt.is_some(), "C03: virtual swap impact computed although the exact computation fails");
                            let virt = virt.unwrap();
                            assert!(s(v.value) == if virt.value < s(w.value) { virt.value } else { s(w.value) }, "C03: swap impact is not the worse of real and virtual impact");
                        }
                        out = (Some(w.value), Some(v.value), m.vi_swaps.is_some());
                    }
                    if without.is_ok() && with.is_err() {
                        assert!(m.vi_swaps.is_some() && without.as_ref().map_or(false, |w| w.value < 0), "C03: swap impact with virtual inventory fails although the virtual leg is not evaluated");
                        out = (without.as_ref().ok().map(|w| w.value), None, true);
                    }
                    if without.is_err() {
                        assert!(with.is_err());
                    }
                    core::mem::forget((without, with));
                }
                out
            }

            pub fn swap_virtual_impact(min_exp_units: R, max_exp_units: R, max_price: R, exact_min: bool) {
                let (w, v, has_virtual) = swap_virtual_impact_core(min_exp_units, max_exp_units, max_price, exact_min);
                kani::cover!(w.is_some() && v.is_some() && v.unwrap() < w.unwrap(), "virtual impact is worse");
                kani::cover!(w.is_some() && v == w && w.unwrap() < 0 && has_virtual, "real impact is worse");
                kani::cover!(w.is_some() && v == w && w.unwrap() > 0 && has_virtual, "positive impact: virtual leg skipped");
                kani::cover!(w.is_some() && v.is_none(), "virtual leg fails");
            }

            /// `position_price_impact`: the virtual inventory can only lower the impact.
            pub fn position_virtual_impact(min_exp_units: R, max_exp_units: R, exact_real: bool, exact_min: bool) {
                let mut m = VMarket::<T, D>::zero();
                m.open_interest = Side2 { long: VPool::any(), short: VPool::any() };
                m.vi_positions = if kani::any() { Some(VPool::any()) } else { None };
                let params = any_params(min_exp_units, max_exp_units);
                m.position_impact_params = VImpact { exponent: *params.exponent(), positive_factor: *params.positive_factor(), negative_factor: *params.negative_factor() };
                let pos = VPosition::<T, D>::zero(m, kani::any(), kani::any());
                let size_delta: S = kani::any();
                let without = pos.position_price_impact(&size_delta, false);
                let with = pos.position_price_impact(&size_delta, true);
                // reference for the real leg: open interest totals as USD values at price 1
                let l = u(m.open_interest.long.long) + u(m.open_interest.long.short);
                let s_ = u(m.open_interest.short.long) + u(m.open_interest.short.short);
                let want = if exact_real && l <= TMAX && s_ <= TMAX {
                    if pos.is_long { ref_impact(l, s_, s(size_delta), 0, &params) } else { ref_impact(l, s_, 0, s(size_delta), &params) }
                } else {
                    None
                };
                if exact_real {
                    match &without {
                        Ok(w) => {
                            assert!(want.is_some(), "C03: position impact computed although the exact computation fails");
                            let r = want.as_ref().unwrap();
                            assert!(s(w.value) == r.value && bc_code(w.balance_change) == r.bc, "C03: position price impact differs from the exact reference on the open interest");
                        }
                        Err(_) => assert!(want.is_none(), "C03: position impact fails where the exact computation is representable"),
                    }
                }
                if let (Ok(w), Ok(v)) = (&without, &with) {
                    assert!(v.value <= w.value, "C03: virtual inventory raised the position price impact");
                    if w.value >= 0 || m.vi_positions.is_none() {
                        assert!(v.value == w.value, "C03: virtual inventory changed a non-negative position price impact");
                    }
                    if let (true, true, Some(vi)) = (exact_min, w.value < 0, m.vi_positions) {
                        // the virtual leg: netted virtual open interest, offset by |size delta| when decreasing
                        let mn = if vi.long < vi.short { u(vi.long) } else { u(vi.short) };
                        let off = if size_delta < 0 { (-s(size_delta)) as R } else { 0 };
                        let (la, lb) = (u(vi.long) - mn + off, u(vi.short) - mn + off);
                        assert!(la <= TMAX && lb <= TMAX);
                        let virt = if pos.is_long { ref_impact(la, lb, s(size_delta), 0, &params) } else { ref_impact(la, lb, 0, s(size_delta), &params) };
                        assert!(virt.is_some(), "C03: virtual position impact computed although the exact computation fails");
                        let virt = virt.unwrap();
                        assert!(s(v.value) == if virt.value < s(w.value) { virt.value } else { s(w.value) }, "C03: position impact is not the worse of real and virtual impact");
                    }
                    kani::cover!(v.value < w.value, "virtual impact is worse");
                    kani::cover!(v.value == w.value && w.value < 0 && m.vi_positions.is_some(), "real impact is worse");
                    kani::cover!(w.value > 0 && m.vi_positions.is_some(), "positive impact: virtual leg skipped");
                }
                if without.is_err() {
                    assert!(with.is_err());
                }
                kani::cover!(without.is_ok() && with.is_err(), "virtual leg fails");
                core::mem::forget((without, with));
            }
        }
    };
}
bodies!(w8, u8, i8, u32, i32, 1);
bodies!(w16, u16, i16, u32, i32, 2);

//@ prop=C03 tier=quick kind=hold
//@ enc=PoolDelta::{try_from_delta_amounts,try_new,initial_diff_value,next_diff_value,is_same_side_rebalance,delta}, PoolValue::{try_new,diff_value}, BalanceExt::{long_usd_value,short_usd_value}, Unsigned::{checked_mul_with_signed,checked_add_with_signed}
//@ bound=width-reduced T=u16, DECIMALS=2: every u16 pool (long, short), every i16 token delta pair, token prices 0..=15
//@ stubs=pool = plain VPool (harness/model/src/vmarket.rs)
#[kani::proof]
fn c03_pool_delta_values_exact_u16() {
    w16::pool_delta_values(15);
}

//@ prop=C03 tier=quick kind=hold
//@ enc=utils::apply_factors, utils::apply_exponent_factor_wrapped, Fixed::{checked_pow,checked_mul}, FixedPointOps::checked_pow_fixed (narrow hook impl: same loop as u64/u128)
//@ bound=width-reduced T=u8, DECIMALS=1 (UNIT 10): every u8 value and factor, exponent in {0,1,2,3}*UNIT (unwind 5)
#[kani::proof]
#[kani::unwind(5)]
fn c03_apply_factors_exact_ref_u8() {
    w8::apply_factors_exact(0, 3);
}

//@ prop=C03 tier=quick kind=hold
//@ enc=PoolDelta::{try_new,price_impact,price_impact_for_same_side_rebalance,is_same_side_rebalance}, PriceImpactParams::adjusted_factors, utils::apply_factors, Fixed::{checked_pow,checked_mul}
//@ bound=width-reduced T=u8, DECIMALS=1 (UNIT 10): every u8 USD-value pool (long, short) and i8 USD delta pair that stay on one side of the balance point, every u8 positive/negative factor, exponent in {0,1}*UNIT; value and balance-change kind compared with the exact reference incl. the failure condition
//@ stubs=pool = plain VPool
#[kani::proof]
#[kani::unwind(4)]
fn c03_impact_exact_same_side_e01_u8() {
    w8::price_impact_exact_same_side(0, 1);
}

//@ prop=C03 tier=quick kind=hold
//@ enc=PoolDelta::{try_new,price_impact,price_impact_for_same_side_rebalance}, PriceImpactParams::adjusted_factors, utils::apply_factors, Fixed::{checked_pow,checked_mul}
//@ bound=width-reduced T=u8, DECIMALS=1: as c03_impact_exact_same_side_e01_u8 with exponent 2*UNIT (unwind 4)
//@ stubs=pool = plain VPool
#[kani::proof]
#[kani::unwind(4)]
fn c03_impact_exact_same_side_e2_u8() {
    w8::price_impact_exact_same_side(2, 2);
}

//@ prop=C03 tier=quick kind=hold
//@ enc=PoolDelta::{try_new,price_impact,price_impact_for_cross_over_rebalance,is_same_side_rebalance}, PriceImpactParams::adjusted_factors, utils::apply_factors, Fixed::{checked_pow,checked_mul}
//@ bound=width-reduced T=u8, DECIMALS=1: every u8 USD-value pool and i8 USD delta pair that cross the balance point, every u8 factor pair, exponent in {0,1}*UNIT; exact reference incl. the failure condition
//@ stubs=pool = plain VPool; by-design exclusion of the sign clause: improved AND cross-over (see c03_improved_cross_over_sign_u8)
#[kani::proof]
#[kani::unwind(4)]
fn c03_impact_exact_cross_over_e01_u8() {
    w8::price_impact_exact_cross_over(0, 1);
}

//@ prop=C03 tier=quick kind=hold
//@ enc=PoolDelta::{try_new,price_impact,price_impact_for_cross_over_rebalance}, PriceImpactParams::adjusted_factors, utils::apply_factors, Fixed::{checked_pow,checked_mul}
//@ bound=width-reduced T=u8, DECIMALS=1: as c03_impact_exact_cross_over_e01_u8 with exponent 2*UNIT (unwind 4)
//@ stubs=pool = plain VPool; by-design exclusion of the sign clause: improved AND cross-over
#[kani::proof]
#[kani::unwind(4)]
fn c03_impact_exact_cross_over_e2_u8() {
    w8::price_impact_exact_cross_over(2, 2);
}

//@ prop=C03 tier=experimental kind=hold
//@ enc=PoolDelta::{try_new,price_impact}, PriceImpactParams::adjusted_factors, utils::apply_factors, Fixed::{checked_pow,checked_mul}
//@ bound=width-reduced T=u16, DECIMALS=2 (UNIT 100): every u16 USD-value pool, every i16 USD delta pair, every u16 factor pair, exponent 1*UNIT; sign clause only
//@ stubs=pool = plain VPool; by-design exclusion: improved AND cross-over
//@ timeout=5400 mem=30
#[kani::proof]
#[kani::unwind(4)]
fn c03_price_impact_sign_u16() {
    w16::price_impact_sign(1, 1);
}

//@ prop=C03 tier=quick kind=finding:c03_improved_cross_over_negative
//@ enc=PoolDelta::{try_new,price_impact,price_impact_for_cross_over_rebalance}
//@ bound=width-reduced T=u8, DECIMALS=1, exponent in {1,2}*UNIT; region: the change improves the balance AND crosses the balance point; strict clause: impact >= 0
//@ stubs=pool = plain VPool
#[kani::proof]
#[kani::unwind(4)]
fn c03_improved_cross_over_sign_u8() {
    w8::improved_cross_over_sign(1, 2);
}

//@ prop=C03 tier=thorough kind=hold
//@ enc=PoolDelta::{try_new,price_impact,is_same_side_rebalance}, PriceImpactParams::adjusted_factors, utils::apply_factors
//@ bound=width-reduced T=u8, DECIMALS=1: every u8 USD-value pool and i8 USD delta pair (not i8::MIN) that stay on one side of the balance point, every factor pair, exponent 1*UNIT; the change and its exact reverse on the resulting pool, both legs must succeed; slack: 1 unit
//@ stubs=pool = plain VPool; by-design slack of one unit (independent floors), see c03_round_trip_strict_same_side_u8
//@ timeout=5400 mem=30
#[kani::proof]
#[kani::unwind(4)]
fn c03_round_trip_same_side_e1_u8() {
    w8::round_trip_same_side(1, 1);
}

//@ prop=C03 tier=quick kind=hold
//@ enc=PoolDelta::{try_new,price_impact,is_same_side_rebalance}, PriceImpactParams::adjusted_factors, utils::apply_factors, Fixed::checked_pow
//@ bound=width-reduced T=u8, DECIMALS=1: as c03_round_trip_same_side_e1_u8 with exponent 2*UNIT (unwind 4)
//@ stubs=pool = plain VPool; by-design slack of one unit
//@ timeout=1800
#[kani::proof]
#[kani::unwind(4)]
fn c03_round_trip_same_side_e2_u8() {
    w8::round_trip_same_side(2, 2);
}

//@ prop=C03 tier=quick kind=hold
//@ enc=PoolDelta::{try_new,price_impact,is_same_side_rebalance}, PriceImpactParams::adjusted_factors, utils::apply_factors
//@ bound=width-reduced T=u8, DECIMALS=1: every u8 USD-value pool and i8 USD delta pair (not i8::MIN) that cross the balance point, every factor pair, exponent 1*UNIT; both legs must succeed; no slack (total <= 0)
//@ stubs=pool = plain VPool
//@ timeout=1800
#[kani::proof]
#[kani::unwind(4)]
fn c03_round_trip_cross_over_e1_u8() {
    w8::round_trip_cross_over(1, 1);
}

//@ prop=C03 tier=quick kind=hold
//@ enc=PoolDelta::{try_new,price_impact,is_same_side_rebalance}, PriceImpactParams::adjusted_factors, utils::apply_factors, Fixed::checked_pow
//@ bound=width-reduced T=u8, DECIMALS=1: as c03_round_trip_cross_over_e1_u8 with exponent 2*UNIT (unwind 4)
//@ stubs=pool = plain VPool
//@ timeout=1800
#[kani::proof]
#[kani::unwind(4)]
fn c03_round_trip_cross_over_e2_u8() {
    w8::round_trip_cross_over(2, 2);
}

//@ prop=C03 tier=quick kind=finding:c03_round_trip_plus_one_unit
//@ enc=PoolDelta::{try_new,price_impact}
//@ bound=width-reduced T=u8, DECIMALS=1, exponent in {1,2}*UNIT; region: same-side rebalance; strict clause: impact(delta) + impact(-delta) <= 0
//@ stubs=pool = plain VPool
#[kani::proof]
#[kani::unwind(4)]
fn c03_round_trip_strict_same_side_u8() {
    w8::round_trip_strict_same_side(1, 2);
}

//@ prop=C03 tier=quick kind=hold
//@ enc=SwapMarketExt::swap_impact_value, BalanceExt::{pool_delta_with_amounts,pool_delta_with_values}, PoolDelta::price_impact
//@ bound=width-reduced T=u8, DECIMALS=1: every u8 liquidity pool and virtual inventory (present or absent), i8 token deltas, prices 0..=15, every factor pair, exponent 1*UNIT; decided: with-virtual <= without-virtual, equal when the real impact is >= 0 or no virtual pool exists, failure only from the virtual leg
//@ stubs=market environment = plain-struct VMarket
//@ timeout=1800
#[kani::proof]
#[kani::unwind(4)]
fn c03_swap_virtual_impact_only_lowers_u8() {
    w8::swap_virtual_impact(1, 1, 15, false);
}

//@ prop=C03 tier=quick kind=hold
//@ enc=PositionExt::position_price_impact, BaseMarketExt::open_interest, Merged::{long_amount,short_amount}, Pool::checked_cancel_amounts (default method), BalanceExt::pool_delta_with_values, PoolDelta::price_impact
//@ bound=width-reduced T=u8, DECIMALS=1: every u8 open-interest pool pair and virtual inventory (present or absent), every i8 size delta, long and short positions, every factor pair, exponent 1*UNIT; decided: with-virtual <= without-virtual, equal when the real impact is >= 0 or no virtual pool exists
//@ stubs=market/position environment = plain-struct VMarket/VPosition
//@ timeout=1800
#[kani::proof]
#[kani::unwind(4)]
fn c03_position_virtual_impact_only_lowers_u8() {
    w8::position_virtual_impact(1, 1, false, false);
}

//@ prop=C03 tier=experimental kind=hold
//@ enc=PoolDelta::{try_new,price_impact}, PriceImpactParams::adjusted_factors, utils::apply_factors, Fixed::{checked_pow,checked_mul}
//@ bound=width-reduced T=u8, DECIMALS=1: every u8 USD-value pool, i8 delta pair, factor pair, exponent 3*UNIT (unwind 5); exact reference
//@ stubs=pool = plain VPool
//@ timeout=5400 mem=30
#[kani::proof]
#[kani::unwind(5)]
fn c03_price_impact_exact_ref_exp3_u8() {
    if kani::any() {
        w8::price_impact_exact_core(3, 3, true);
    } else {
        w8::price_impact_exact_core(3, 3, false);
    }
}

//@ prop=C03 tier=experimental kind=hold
//@ enc=PoolDelta::{try_new,price_impact}, PriceImpactParams::adjusted_factors, utils::apply_factors, Fixed::{checked_pow,checked_mul}
//@ bound=width-reduced T=u16, DECIMALS=2: every u16 USD-value pool, i16 USD delta pair, every factor pair, exponent in {0,1,2}*UNIT (unwind 4); exact reference
//@ stubs=pool = plain VPool
//@ timeout=5400 mem=30
#[kani::proof]
#[kani::unwind(4)]
fn c03_price_impact_exact_ref_u16() {
    if kani::any() {
        w16::price_impact_exact_core(0, 2, true);
    } else {
        w16::price_impact_exact_core(0, 2, false);
    }
}

//@ prop=C03 tier=experimental kind=hold
//@ enc=PoolDelta::{try_new,price_impact}, PriceImpactParams::adjusted_factors, utils::apply_factors
//@ bound=width-reduced T=u8, DECIMALS=1: round trip (both cases) with exponent 3*UNIT (unwind 5)
//@ stubs=pool = plain VPool
//@ timeout=5400 mem=30
#[kani::proof]
#[kani::unwind(5)]
fn c03_round_trip_not_profitable_exp3_u8() {
    w8::round_trip(3, 3);
}

//@ prop=C03 tier=experimental kind=hold
//@ enc=PoolDelta::{try_new,price_impact}, PriceImpactParams::adjusted_factors, utils::apply_factors
//@ bound=width-reduced T=u16, DECIMALS=2: every u16 USD-value pool, i16 USD delta pair, every factor pair, exponent in {1,2}*UNIT (unwind 4)
//@ stubs=pool = plain VPool
//@ timeout=5400 mem=30
#[kani::proof]
#[kani::unwind(4)]
fn c03_round_trip_not_profitable_u16() {
    w16::round_trip(1, 2);
}




//@ prop=C03 tier=experimental kind=hold
//@ enc=SwapMarketExt::swap_impact_value, BalanceExt::{pool_delta_with_amounts,pool_delta_with_values}, PoolDelta::price_impact
//@ bound=width-reduced T=u8, DECIMALS=1: as c03_swap_virtual_impact_only_lowers_u8, additionally the result equals min(real impact, exact reference of the virtual leg)
//@ stubs=market environment = plain-struct VMarket
//@ timeout=5400 mem=30
#[kani::proof]
#[kani::unwind(4)]
fn c03_swap_virtual_impact_exact_min_u8() {
    w8::swap_virtual_impact(1, 1, 15, true);
}

//@ prop=C03 tier=experimental kind=hold
//@ enc=PositionExt::position_price_impact, BaseMarketExt::open_interest, Pool::checked_cancel_amounts (default method), PoolDelta::price_impact
//@ bound=width-reduced T=u8, DECIMALS=1: as c03_position_virtual_impact_only_lowers_u8, additionally real leg == exact reference on the open-interest totals and result == min(real, exact reference of the netted/offset virtual leg)
//@ stubs=market/position environment = plain-struct VMarket/VPosition
//@ timeout=5400 mem=30
#[kani::proof]
#[kani::unwind(4)]
fn c03_position_virtual_impact_exact_min_u8() {
    w8::position_virtual_impact(1, 1, true, true);
}
