//! C02 — fee splitting never creates or loses tokens.
//!
//! Subject: the real generic `FeeParams::{fee, receiver_fee, apply_fees, base_position_fees
//! (-> order_fees)}`, `LiquidationFeeParams::fee` (through the cfg hook `verif_fee`) and the
//! `PositionFees` accessors of `crates/model/src/params/fee.rs`, instantiated at a narrow width.
//! Oracle: exact arithmetic in u64.
use crate::common::*;
use gmsol_model::{
    num::Unsigned,
    params::{
        fee::{FundingFees, LiquidationFeeParams, PositionFees},
        FeeParams,
    },
    pool::delta::BalanceChange,
    price::Price,
};


macro_rules! bodies {
    ($m:ident, $t:ty, $s:ty, $r:ty, $rs:ty, $d:expr) => {
        pub mod $m {
            use super::*;
            crate::width_prelude!($t, $s, $r, $rs, $d);

        pub fn any_fee_params() -> (FeeParams<T>, R, R, R, Option<R>) {
            let pf: T = kani::any();
            let nf: T = kani::any();
            let rf: T = kani::any();
            let p = FeeParams::builder()
                .positive_impact_fee_factor(pf)
                .negative_impact_fee_factor(nf)
                .fee_receiver_factor(rf)
                .build();
            if kani::any() {
                let d: T = kani::any();
                (p.with_discount_factor(d), u(pf), u(nf), u(rf), Some(u(d)))
            } else {
                (p, u(pf), u(nf), u(rf), None)
            }
        }

        /// Exact reference for `FeeParams::fee` over the integers: `(fee_before_discount, fee)`;
        /// `fee` is `None` when an intermediate does not fit `T` or the discount exceeds the fee.
        pub fn ref_fee(pf: R, nf: R, disc: Option<R>, improved: bool, amount: R) -> (R, Option<R>) {
            let factor = if improved { pf } else { nf };
            let fee0 = mul_div_floor(amount, factor, UNIT);
            if fee0 > TMAX {
                return (fee0, None);
            }
            let discount = mul_div_floor(fee0, disc.unwrap_or(0), UNIT);
            if discount > TMAX {
                return (fee0, None);
            }
            (fee0, fee0.checked_sub(discount))
        }

        // ---------------------------------------------------------------------------------------------
        // apply_fees, stage by stage: factors <= 100 %  =>  Some, exact three-way split; every stage is
        // compared with the exact quotient computed from the subject's own previous stage, so that each
        // obligation contains one mul_div (the composed two/three-stage comparison is
        // `apply_fees_any_factors` below, run at u8 in quick and u16 in thorough).
        // ---------------------------------------------------------------------------------------------
        pub fn apply_fees_valid_factors() {
            let unit = UNIT;
            let (params, pf, nf, rf, disc) = any_fee_params();
            kani::assume(pf <= unit && nf <= unit && rf <= unit && disc.unwrap_or(0) <= unit);
            let amount: T = kani::any();
            let bc = any_balance_change();
            let improved = is_improved(bc);
            let factor = if improved { pf } else { nf };
            let fee0 = mul_div_floor(u(amount), factor, unit);

            let got = params.apply_fees::<D>(bc, &amount);
            assert!(got.is_some(), "C02: apply_fees fails although every factor is <= 100%");
            let (net, fees) = got.unwrap();
            let (net, pool, receiver) = (u(net), u(*fees.fee_amount_for_pool()), u(*fees.fee_amount_for_receiver()));
            let fee = pool + receiver;
            assert!(net + pool + receiver == u(amount), "C02: net + pool share + receiver share != gross amount");
            assert!(fee <= u(amount), "C02: fee exceeds the gross amount");
            assert!(fee <= fee0, "C02: a discount raised the fee above floor(amount*factor/UNIT) for the balance-change kind");
            if disc.unwrap_or(0) == 0 {
                assert!(fee == fee0, "C02: undiscounted fee is not floor(amount*factor/UNIT) for the balance-change kind");
            }
            if disc == Some(unit) {
                assert!(fee == 0, "C02: a 100% discount leaves a fee");
            }
            assert!(receiver == mul_div_floor(fee, rf, unit), "C02: receiver share is not floor(fee*receiver_factor/UNIT)");

            kani::cover!(improved && pf != nf && fee > 0, "improved kind, distinct factors");
            kani::cover!(!improved && pf != nf && fee > 0, "worsened/unchanged kind, distinct factors");
            kani::cover!(matches!(bc, BalanceChange::Unchanged) && fee > 0, "unchanged kind");
            kani::cover!(disc.is_some() && fee < fee0 && fee > 0, "discount lowers the fee");
            kani::cover!(receiver > 0 && pool > 0, "both shares non-zero");
            kani::cover!((u(amount) * factor) % unit != 0 && disc.is_none(), "fee rounded down");
            kani::cover!((fee * rf) % unit != 0 && receiver > 0, "receiver share rounded down");
            kani::cover!(net == 0 && u(amount) > 0, "100% fee");
        }

        /// `FeeParams::fee` with a discount: the discount is exactly floor(fee0*discount/UNIT), where
        /// fee0 = floor(amount*factor/UNIT) (two chained mul_divs against the exact two-stage reference).
        pub fn fee_discount_exact() {
            let unit = UNIT;
            let (params, pf, nf, rf, disc) = any_fee_params();
            kani::assume(pf <= unit && nf <= unit && disc.is_some() && disc.unwrap_or(0) <= unit);
            let d = disc.unwrap_or(0);
            let amount: T = kani::any();
            let bc = any_balance_change();
            let improved = is_improved(bc);
            let fee0 = mul_div_floor(u(amount), if improved { pf } else { nf }, unit);
            let got = params.fee::<D>(bc, &amount);
            assert!(got.is_some(), "C02: FeeParams::fee fails with factors <= 100%");
            let fee = u(got.unwrap());
            assert!(fee <= fee0, "C02: a discount raised the fee");
            assert!(is_floor_div(fee0 - fee, fee0 * d, unit), "C02: discounted fee is not fee0 - floor(fee0*discount/UNIT)");
            kani::cover!((fee0 * d) % unit != 0 && fee0 - fee > 0, "discount rounded down");
            kani::cover!(fee0 - fee > 0 && fee > 0 && improved, "partial discount, improved");
            kani::cover!(fee0 - fee > 0 && fee > 0 && !improved, "partial discount, worsened");
        }

        // ---------------------------------------------------------------------------------------------
        // apply_fees: ANY factors (incl. > 100 %)  =>  None, or still an exact split with fee <= amount
        // ---------------------------------------------------------------------------------------------
        pub fn apply_fees_any_factors() {
            let unit = UNIT;
            let (params, pf, nf, rf, disc) = any_fee_params();
            let amount: T = kani::any();
            let bc = any_balance_change();
            let improved = is_improved(bc);
            let max = TMAX;

            // exact reference incl. the failure condition (every intermediate must fit T)
            let (fee0, fee) = ref_fee(pf, nf, disc, improved, u(amount));
            let want = (|| {
                let fee = fee?;
                let recv = mul_div_floor(fee, rf, unit);
                if recv > max {
                    return None;
                }
                let pool = fee.checked_sub(recv)?;
                let net = u(amount).checked_sub(fee)?;
                Some((net, pool, recv))
            })();

            let got = params.apply_fees::<D>(bc, &amount);
            match got {
                Some((net, fees)) => {
                    let (net, pool, receiver) = (u(net), u(*fees.fee_amount_for_pool()), u(*fees.fee_amount_for_receiver()));
                    assert!(pool + receiver <= u(amount), "C02: apply_fees returned a fee larger than the input amount");
                    assert!(net + pool + receiver == u(amount), "C02: split of the gross amount is not exact");
                    assert!(want == Some((net, pool, receiver)), "C02: apply_fees result differs from the exact reference");
                }
                None => {
                    assert!(want.is_none(), "C02: apply_fees fails where the exact computation is representable");
                }
            }
            let any_invalid = pf > unit || nf > unit || rf > unit || disc.unwrap_or(0) > unit;
            kani::cover!(got.is_none() && (if improved { pf } else { nf }) > unit, "fee factor > 100% fails");
            kani::cover!(got.is_none() && rf > unit && pf <= unit && nf <= unit && disc.is_none(), "receiver factor > 100% fails");
            kani::cover!(got.is_none() && disc.unwrap_or(0) > unit && pf <= unit && nf <= unit && rf <= unit, "discount > 100% fails");
            kani::cover!(got.is_some() && any_invalid, "invalid factor but still a valid split");
            kani::cover!(got.is_some() && !any_invalid, "valid factors");
        }


        /// ANY factor values: `Some` => exact split, fee <= amount (cheap structural obligation at u16).
        pub fn apply_fees_some_implies_split() {
            let unit = UNIT;
            let (params, pf, nf, rf, disc) = any_fee_params();
            let amount: T = kani::any();
            let bc = any_balance_change();
            let improved = is_improved(bc);
            let factor = if improved { pf } else { nf };
            let got = params.apply_fees::<D>(bc, &amount);
            if let Some((net, fees)) = got {
                let (net, pool, receiver) = (u(net), u(*fees.fee_amount_for_pool()), u(*fees.fee_amount_for_receiver()));
                assert!(pool + receiver <= u(amount), "C02: apply_fees returned a fee larger than the input amount");
                assert!(net + pool + receiver == u(amount), "C02: split of the gross amount is not exact");
                assert!(receiver == mul_div_floor(pool + receiver, rf, unit), "C02: receiver share is not floor(fee*receiver_factor/UNIT)");
                if disc.unwrap_or(0) == 0 {
                    assert!(pool + receiver == mul_div_floor(u(amount), factor, unit), "C02: undiscounted fee is not floor(amount*factor/UNIT)");
                }
            } else {
                assert!(pf > unit || nf > unit || rf > unit || disc.unwrap_or(0) > unit, "C02: apply_fees fails with valid factors");
            }
            // the undiscounted fee of an invalid factor is above the amount: must fail
            if disc.is_none() && factor > unit && mul_div_floor(u(amount), factor, unit) > u(amount) {
                assert!(got.is_none(), "C02: a fee factor above 100% produced a fee above the input amount");
            }
            let any_invalid = pf > unit || nf > unit || rf > unit || disc.unwrap_or(0) > unit;
            kani::cover!(got.is_none() && factor > unit, "fee factor > 100% fails");
            kani::cover!(got.is_none() && rf > unit && pf <= unit && nf <= unit && disc.is_none(), "receiver factor > 100% fails");
            kani::cover!(got.is_none() && disc.unwrap_or(0) > unit && pf <= unit && nf <= unit && rf <= unit, "discount > 100% fails");
            kani::cover!(got.is_some() && any_invalid, "invalid factor but still a valid split");
            kani::cover!(got.is_some() && !any_invalid, "valid factors");
        }

        // ---------------------------------------------------------------------------------------------
        // order fees (base_position_fees -> order_fees)
        // ---------------------------------------------------------------------------------------------
        pub fn order_fees() {
            let unit = UNIT;
            let (params, pf, nf, rf, disc) = any_fee_params();
            let size_delta_usd: T = kani::any();
            let price = Price::<T> { min: kani::any(), max: kani::any() };
            let bc = any_balance_change();
            let improved = is_improved(bc);
            let max = TMAX;

            let (fee0, fee_value) = ref_fee(pf, nf, disc, improved, u(size_delta_usd));
            let want = (|| {
                if u(price.min) == 0 || u(price.max) == 0 {
                    return None;
                }
                let fee_value = fee_value?;
                let fee_amount = fee_value / u(price.min);
                let recv = mul_div_floor(fee_amount, rf, unit);
                if recv > max {
                    return None;
                }
                let pool = fee_amount.checked_sub(recv)?;
                Some((fee_value, fee_amount, pool, recv))
            })();

            let got = params.base_position_fees::<D>(&price, &size_delta_usd, bc);
            match &got {
                Ok(fees) => {
                    let o = fees.order_fees();
                    let pool = u(*o.fee_amounts().fee_amount_for_pool());
                    let receiver = u(*o.fee_amounts().fee_amount_for_receiver());
                    let value = u(*o.fee_value());
                    assert!(want.is_some(), "C02: order fee computed although the exact computation fails");
                    let (w_value, w_amount, w_pool, w_recv) = want.unwrap();
                    assert!(value == w_value, "C02: order fee value is not floor(size*factor/UNIT) less the floor discount");
                    assert!(pool + receiver == w_amount, "C02: order fee pool + receiver shares != floor(fee_value / min collateral price)");
                    assert!(receiver == w_recv, "C02: order fee receiver share is not floor(fee_amount*receiver_factor/UNIT)");
                    assert!(pool == w_pool);
                    assert!(u(*fees.paid_order_and_borrowing_fee_value()) == value, "C02: paid order fee value differs from the order fee value");
                    // fresh base fees: nothing but the order fee is charged
                    assert!(fees.for_receiver().map(u).ok() == Some(receiver));
                    assert!(fees.for_pool::<D>().map(u).ok() == Some(pool));
                    assert!(fees.total_cost_amount().map(u).ok() == Some(pool + receiver));
                    assert!(fees.total_cost_excluding_funding().map(u).ok() == Some(pool + receiver));
                    assert!(fees.liquidation_fees().is_none());
                    assert!(u(*fees.borrowing_fees().fee_amount()) == 0 && u(*fees.funding_fees().amount()) == 0);
                    if pf <= unit && nf <= unit && disc.unwrap_or(0) <= unit {
                        assert!(value <= u(size_delta_usd), "C02: order fee value above the size delta with factors <= 100%");
                        assert!(value <= fee0, "C02: discount raised the order fee");
                    }
                }
                Err(_) => {
                    assert!(want.is_none(), "C02: order fee fails where the exact computation is representable");
                }
            }
            if pf <= unit && nf <= unit && rf <= unit && disc.unwrap_or(0) <= unit && u(price.min) != 0 && u(price.max) != 0 {
                assert!(got.is_ok(), "C02: order fee fails with valid factors and non-zero prices");
            }
            kani::cover!(got.is_ok() && improved && pf != nf && fee0 > 0, "improved");
            kani::cover!(got.is_ok() && !improved && pf != nf && fee0 > 0, "worsened");
            kani::cover!(got.is_err() && u(price.min) != 0 && u(price.max) != 0, "fails on a factor");
            kani::cover!(got.is_err() && u(price.min) != 0 && u(price.max) == 0, "fails on zero max price");
            kani::cover!(want.map_or(false, |w| w.0 % u(price.min) != 0 && w.1 > 0), "amount rounded down");
            kani::cover!(want.map_or(false, |w| w.3 > 0 && w.2 > 0 && u(price.min) != u(price.max)), "both shares, min != max price");
            core::mem::forget(got);
        }


        // ---------------------------------------------------------------------------------------------
        // liquidation fee: value floor, amount ROUND UP, receiver share floor
        // ---------------------------------------------------------------------------------------------
        pub fn liquidation_fee() {
            let unit = UNIT;
            let max = TMAX;
            let factor: T = kani::any();
            let rf: T = kani::any();
            let params = LiquidationFeeParams::builder().factor(factor).receiver_factor(rf).build();
            let size: T = kani::any();
            let price = Price::<T> { min: kani::any(), max: kani::any() };

            let want = (|| {
                if u(factor) == 0 {
                    return Some((0, 0, 0));
                }
                let value = mul_div_floor(u(size), u(factor), unit);
                if value > max || u(price.min) == 0 {
                    return None;
                }
                // intermediate of checked_round_up_div (checked_add first): value + divisor must fit
                if value + u(price.min) > max {
                    return None;
                }
                let amount = div_ceil(value, u(price.min));
                let recv = mul_div_floor(amount, u(rf), unit);
                if recv > max {
                    return None;
                }
                Some((value, amount, recv))
            })();

            let got = params.verif_fee::<D>(&size, &price);
            match &got {
                Ok(f) => {
                    assert!(want.is_some(), "C02: liquidation fee computed although the exact computation fails");
                    let (value, amount, recv) = want.unwrap();
                    assert!(u(*f.fee_value()) == value, "C02: liquidation fee value is not floor(size*factor/UNIT)");
                    assert!(u(*f.fee_amount()) == amount, "C02: liquidation fee amount is not ceil(fee_value / min collateral price)");
                    assert!(u(*f.fee_amount_for_receiver()) == recv, "C02: liquidation receiver share is not floor(amount*receiver_factor/UNIT)");
                    // amount is the round-up: covers the value, by less than one token
                    if u(factor) != 0 {
                        assert!(amount * u(price.min) >= value && (amount == 0 || (amount - 1) * u(price.min) < value));
                    }
                    let pool = f.fee_amount_for_pool();
                    if u(rf) <= unit {
                        assert!(pool.as_ref().map(|p| u(*p)).ok() == Some(amount - recv), "C02: liquidation pool share + receiver share != fee amount");
                    } else {
                        assert!(pool.as_ref().map(|p| u(*p)).ok() == amount.checked_sub(recv));
                    }
                    core::mem::forget(pool);
                }
                Err(_) => assert!(want.is_none(), "C02: liquidation fee fails where the exact computation is representable"),
            }
            kani::cover!(got.is_ok() && want.map_or(false, |w| w.0 % u(price.min).max(1) != 0 && w.1 > 1), "amount rounded up");
            kani::cover!(got.is_ok() && want.map_or(false, |w| w.0 > 0 && w.0 % u(price.min).max(1) == 0), "amount exact");
            kani::cover!(got.is_ok() && want.map_or(false, |w| w.2 > 0 && w.2 < w.1), "receiver share strictly between");
            kani::cover!(got.is_ok() && u(factor) == 0 && u(price.min) == 0, "zero factor short-circuit");
            kani::cover!(got.is_err() && u(price.min) == 0, "zero price fails");
            kani::cover!(got.is_err() && u(price.min) != 0 && u(factor) <= unit && u(rf) <= unit, "round-up intermediate overflow");
            kani::cover!(got.is_ok() && u(price.min) > u(price.max) , "min > max price: min is used");
            core::mem::forget(got);
        }


        // ---------------------------------------------------------------------------------------------
        // order fee / liquidation fee, stage by stage (one mul_div or one division per obligation)
        // ---------------------------------------------------------------------------------------------
        pub fn order_fees_stagewise() {
            let unit = UNIT;
            let (params, pf, nf, rf, disc) = any_fee_params();
            let size_delta_usd: T = kani::any();
            let price = Price::<T> { min: kani::any(), max: kani::any() };
            let (pmin, pmax) = (u(price.min), u(price.max));
            let bc = any_balance_change();
            let improved = is_improved(bc);
            let valid = pf <= unit && nf <= unit && rf <= unit && disc.unwrap_or(0) <= unit;

            let got = params.base_position_fees::<D>(&price, &size_delta_usd, bc);
            if let Ok(fees) = &got {
                let o = fees.order_fees();
                let pool = u(*o.fee_amounts().fee_amount_for_pool());
                let receiver = u(*o.fee_amounts().fee_amount_for_receiver());
                let value = u(*o.fee_value());
                let amount = pool + receiver;
                assert!(pmin != 0 && pmax != 0, "C02: order fee computed with a zero collateral price");
                let fee0 = mul_div_floor(u(size_delta_usd), if improved { pf } else { nf }, unit);
                assert!(value <= fee0, "C02: order fee value above floor(size*factor/UNIT) for the balance-change kind");
                if disc.unwrap_or(0) == 0 {
                    assert!(value == fee0, "C02: undiscounted order fee value is not floor(size*factor/UNIT) for the balance-change kind");
                }
                assert!(is_floor_div(amount, value, pmin), "C02: order fee pool + receiver shares != floor(fee_value / min collateral price)");
                assert!(receiver == mul_div_floor(amount, rf, unit), "C02: order fee receiver share is not floor(fee_amount*receiver_factor/UNIT)");
                assert!(u(*fees.paid_order_and_borrowing_fee_value()) == value, "C02: paid order fee value differs from the order fee value");
                if pf <= unit && nf <= unit {
                    assert!(value <= u(size_delta_usd), "C02: order fee value above the size delta with factors <= 100%");
                }
            }
            if valid && pmin != 0 && pmax != 0 {
                assert!(got.is_ok(), "C02: order fee fails with valid factors and non-zero prices");
            }
            if pmin == 0 || pmax == 0 {
                assert!(got.is_err(), "C02: order fee computed with a zero collateral price");
            }
            kani::cover!(got.is_ok() && improved && pf != nf && pf > 0, "improved");
            kani::cover!(got.is_ok() && !improved && pf != nf && nf > 0, "worsened");
            kani::cover!(got.is_err() && pmin != 0 && pmax != 0, "fails on a factor");
            kani::cover!(got.is_err() && pmin != 0 && pmax == 0, "fails on zero max price");
            kani::cover!(got.is_ok() && pmin > pmax && pmax > 1, "min > max: min price is used");
            core::mem::forget(got);
        }

        pub fn liquidation_fee_stagewise() {
            let unit = UNIT;
            let max = TMAX;
            let factor: T = kani::any();
            let rf: T = kani::any();
            let params = LiquidationFeeParams::builder().factor(factor).receiver_factor(rf).build();
            let size: T = kani::any();
            let price = Price::<T> { min: kani::any(), max: kani::any() };
            let pmin = u(price.min);
            let w_value = mul_div_floor(u(size), u(factor), unit);

            let got = params.verif_fee::<D>(&size, &price);
            match &got {
                Ok(f) => {
                    let (value, amount, recv) = (u(*f.fee_value()), u(*f.fee_amount()), u(*f.fee_amount_for_receiver()));
                    if u(factor) == 0 {
                        assert!(value == 0 && amount == 0 && recv == 0);
                    } else {
                        assert!(value == w_value, "C02: liquidation fee value is not floor(size*factor/UNIT)");
                        assert!(pmin != 0, "C02: liquidation fee computed with a zero price");
                        assert!(is_ceil_div(amount, value, pmin), "C02: liquidation fee amount is not ceil(fee_value / min collateral price)");
                        assert!(recv == mul_div_floor(amount, u(rf), unit), "C02: liquidation receiver share is not floor(amount*receiver_factor/UNIT)");
                    }
                    let pool = f.fee_amount_for_pool();
                    assert!(pool.as_ref().map(|p| u(*p)).ok() == amount.checked_sub(recv), "C02: liquidation pool share + receiver share != fee amount");
                    if u(rf) <= unit {
                        assert!(pool.is_ok());
                    }
                    kani::cover!(u(factor) != 0 && value % pmin.max(1) != 0 && amount > 1, "amount rounded up");
                    kani::cover!(u(factor) != 0 && value > 0 && value % pmin.max(1) == 0, "amount exact");
                    kani::cover!(recv > 0 && recv < amount, "receiver share strictly between");
                    core::mem::forget(pool);
                }
                Err(_) => {
                    assert!(u(factor) != 0);
                    assert!(pmin == 0 || w_value > max || w_value + pmin > max || u(rf) > unit, "C02: liquidation fee fails although every intermediate is representable");
                }
            }
            kani::cover!(got.is_ok() && u(factor) == 0 && pmin == 0, "zero factor short-circuit");
            kani::cover!(got.is_err() && pmin == 0, "zero price fails");
            kani::cover!(got.is_err() && pmin != 0 && u(factor) <= unit && u(rf) <= unit, "round-up intermediate overflow");
            kani::cover!(got.is_ok() && pmin > u(price.max), "min > max price: min is used");
            core::mem::forget(got);
        }

        // ---------------------------------------------------------------------------------------------
        // PositionFees accessors: pool + receiver == total cost, with borrowing + liquidation + funding
        // ---------------------------------------------------------------------------------------------
        pub fn position_fees_accessors() {
            let unit = UNIT;
            let max = TMAX;
            let (params, pf, nf, rf, disc) = any_fee_params();
            kani::assume(pf <= unit && nf <= unit && rf <= unit && disc.unwrap_or(0) <= unit);
            let size_delta_usd: T = kani::any();
            let price = Price::<T> { min: kani::any(), max: kani::any() };
            kani::assume(u(price.min) != 0 && u(price.max) != 0);
            let bc = any_balance_change();

            let base = params.base_position_fees::<D>(&price, &size_delta_usd, bc);
            assert!(base.is_ok());
            let base = base.unwrap();
            let o_pool = u(*base.order_fees().fee_amounts().fee_amount_for_pool());
            let o_recv = u(*base.order_fees().fee_amounts().fee_amount_for_receiver());
            let o_value = u(*base.order_fees().fee_value());

            // borrowing fees
            let b_rf: T = kani::any();
            kani::assume(u(b_rf) <= unit);
            let b_value: T = kani::any();
            let with_b = base.set_borrowing_fees::<D>(&b_rf, &price, b_value);
            let b_amount = u(b_value) / u(price.min);
            let b_recv = mul_div_floor(b_amount, u(b_rf), unit);
            if o_value + u(b_value) > max {
                assert!(with_b.is_err());
                core::mem::forget(with_b);
                return;
            }
            assert!(with_b.is_ok(), "C02: set_borrowing_fees fails with a valid receiver factor");
            let fees = with_b.unwrap();
            assert!(u(*fees.borrowing_fees().fee_amount()) == b_amount, "C02: borrowing fee amount is not floor(value / min price)");
            assert!(u(*fees.borrowing_fees().fee_amount_for_receiver()) == b_recv, "C02: borrowing receiver share is not floor(amount*factor/UNIT)");
            assert!(u(*fees.paid_order_and_borrowing_fee_value()) == o_value + u(b_value));

            // liquidation fees
            let l_factor: T = kani::any();
            let l_rf: T = kani::any();
            kani::assume(u(l_factor) <= unit && u(l_rf) <= unit);
            let liq = if kani::any() {
                let p = LiquidationFeeParams::builder().factor(l_factor).receiver_factor(l_rf).build();
                match p.verif_fee::<D>(&size_delta_usd, &price) {
                    Ok(f) => Some(f),
                    Err(e) => {
                        core::mem::forget(e);
                        return;
                    }
                }
            } else {
                None
            };
            let (l_amount, l_recv) = liq.as_ref().map_or((0, 0), |f| (u(*f.fee_amount()), u(*f.fee_amount_for_receiver())));
            let funding: T = kani::any();
            let fees = fees.set_liquidation_fees(liq).set_funding_fees(
                FundingFees::builder().amount(funding).claimable_long_token_amount(kani::any()).claimable_short_token_amount(kani::any()).build(),
            );

            let w_recv = o_recv + b_recv + l_recv;
            let w_pool = o_pool + (b_amount - b_recv) + (l_amount - l_recv);
            let w_cost = o_pool + o_recv + b_amount + l_amount;
            let for_receiver = fees.for_receiver();
            let for_pool = fees.for_pool::<D>();
            let cost_ex = fees.total_cost_excluding_funding();
            let cost = fees.total_cost_amount();
            assert!(for_receiver.as_ref().map(|x| u(*x)).ok() == fit(w_recv), "C02: PositionFees::for_receiver is not the sum of the receiver shares");
            assert!(for_pool.as_ref().map(|x| u(*x)).ok() == fit(w_pool), "C02: PositionFees::for_pool is not the sum of the pool shares");
            assert!(cost_ex.as_ref().map(|x| u(*x)).ok() == fit(w_cost), "C02: total_cost_excluding_funding is not order + borrowing + liquidation fee amounts");
            assert!(cost.as_ref().map(|x| u(*x)).ok() == fit(w_cost + u(funding)), "C02: total_cost_amount is not cost + funding");
            if let (Ok(r), Ok(p), Ok(c)) = (&for_receiver, &for_pool, &cost_ex) {
                assert!(u(*r) + u(*p) == u(*c), "C02: pool share + receiver share != total position fee cost");
            }
            kani::cover!(cost.is_ok() && l_recv > 0 && b_recv > 0 && o_recv > 0 && o_pool > 0, "all three fee kinds with receiver shares");
            kani::cover!(cost.is_err() && cost_ex.is_ok(), "funding overflows the total");
            kani::cover!(cost_ex.is_err(), "total cost overflow");
            core::mem::forget((for_receiver, for_pool, cost_ex, cost));
        }


        }
    };
}
bodies!(w8, u8, i8, u32, i32, 1);
bodies!(w16, u16, i16, u32, i32, 2);
bodies!(w32, u32, i32, u64, i64, 4);

//@ prop=C02 tier=quick kind=hold
//@ enc=FeeParams::apply_fees, FeeParams::fee, FeeParams::receiver_fee, FeeParams::factor, FeeParams::discount_factor, utils::apply_factor, <u16 as MulDiv>::checked_mul_div (narrow hook impl)
//@ bound=width-reduced T=u16, DECIMALS=2 (UNIT 100): every u16 amount, every fee/receiver/discount factor in 0..=UNIT, discount present or absent, all three balance-change kinds
#[kani::proof]
fn c02_apply_fees_split_is_exact_u16() {
    w16::apply_fees_valid_factors();
}

//@ prop=C02 tier=quick kind=hold
//@ enc=FeeParams::fee, FeeParams::factor, FeeParams::discount_factor, utils::apply_factor
//@ bound=width-reduced T=u16, DECIMALS=2: every u16 amount, fee and discount factors in 0..=UNIT, all three balance-change kinds
#[kani::proof]
fn c02_fee_discount_is_floor_u16() {
    w16::fee_discount_exact();
}

//@ prop=C02 tier=quick kind=hold
//@ enc=FeeParams::apply_fees, FeeParams::fee, FeeParams::receiver_fee, utils::apply_factor
//@ bound=width-reduced T=u8, DECIMALS=1 (UNIT 10): every u8 amount and every u8 value of the four factors (also above UNIT), discount present or absent, all three balance-change kinds; result compared with the exact composed reference incl. the failure condition
#[kani::proof]
fn c02_apply_fees_exact_ref_any_factors_u8() {
    w8::apply_fees_any_factors();
}

//@ prop=C02 tier=thorough kind=hold
//@ enc=FeeParams::apply_fees, FeeParams::fee, FeeParams::receiver_fee, utils::apply_factor
//@ bound=width-reduced T=u16, DECIMALS=2: every u16 amount and every u16 value of the four factors (also above UNIT), discount present or absent, all three balance-change kinds
//@ timeout=5400 mem=30
#[kani::proof]
fn c02_apply_fees_exact_ref_any_factors_u16() {
    w16::apply_fees_any_factors();
}

//@ prop=C02 tier=thorough kind=hold
//@ enc=FeeParams::apply_fees, FeeParams::fee, FeeParams::receiver_fee, utils::apply_factor, <u32 as MulDiv>::checked_mul_div (narrow hook impl)
//@ bound=width-reduced T=u32, DECIMALS=4 (UNIT 10000): every u32 amount, every factor in 0..=UNIT, discount present or absent, all three balance-change kinds
//@ timeout=5400 mem=30
#[kani::proof]
fn c02_apply_fees_split_is_exact_u32() {
    w32::apply_fees_valid_factors();
}

//@ prop=C02 tier=quick kind=hold
//@ enc=FeeParams::apply_fees, FeeParams::fee, FeeParams::receiver_fee, utils::apply_factor
//@ bound=width-reduced T=u16, DECIMALS=2: every u16 amount and every u16 value of the four factors (also above UNIT); decided here: Some => exact split and fee <= amount
#[kani::proof]
fn c02_apply_fees_some_implies_split_u16() {
    w16::apply_fees_some_implies_split();
}

//@ prop=C02 tier=quick kind=hold
//@ enc=FeeParams::base_position_fees, FeeParams::order_fees, FeeParams::fee, FeeParams::receiver_fee, Price::{has_zero,pick_price}, PositionFees accessors
//@ bound=width-reduced T=u8, DECIMALS=1: every u8 size delta, min/max collateral price (incl. zero, min>max), every u8 value of the four factors (also above UNIT), discount present or absent, all three balance-change kinds; compared with the exact composed reference incl. the failure condition
#[kani::proof]
fn c02_order_fees_exact_ref_u8() {
    w8::order_fees();
}

//@ prop=C02 tier=experimental kind=hold
//@ enc=FeeParams::base_position_fees, FeeParams::order_fees, FeeParams::fee, FeeParams::receiver_fee, Price::{has_zero,pick_price}, PositionFees accessors
//@ bound=width-reduced T=u16, DECIMALS=2: as c02_order_fees_exact_ref_u8 with every u16 value
//@ timeout=5400 mem=30
#[kani::proof]
fn c02_order_fees_exact_ref_u16() {
    w16::order_fees();
}

//@ prop=C02 tier=quick kind=hold
//@ enc=FeeParams::base_position_fees, FeeParams::order_fees, FeeParams::fee, FeeParams::receiver_fee, Price::{has_zero,pick_price}
//@ bound=width-reduced T=u16, DECIMALS=2: every u16 size delta, min/max collateral price (incl. zero, min>max), every u16 value of the four factors, discount present or absent, all kinds; each stage compared with the exact quotient of the previous stage
#[kani::proof]
fn c02_order_fees_stagewise_u16() {
    w16::order_fees_stagewise();
}

//@ prop=C02 tier=quick kind=hold
//@ enc=LiquidationFeeParams::fee (via verif_fee hook), utils::apply_factor, Unsigned::checked_round_up_div, Price::pick_price, LiquidationFees accessors
//@ bound=width-reduced T=u8, DECIMALS=1: every u8 size, factor, receiver factor (also above UNIT), min/max price (incl. zero); compared with the exact composed reference incl. the failure condition
#[kani::proof]
fn c02_liquidation_fee_exact_ref_u8() {
    w8::liquidation_fee();
}

//@ prop=C02 tier=thorough kind=hold
//@ enc=LiquidationFeeParams::fee (via verif_fee hook), utils::apply_factor, Unsigned::checked_round_up_div
//@ bound=width-reduced T=u16, DECIMALS=2: as c02_liquidation_fee_exact_ref_u8 with every u16 value
//@ timeout=5400 mem=30
#[kani::proof]
fn c02_liquidation_fee_exact_ref_u16() {
    w16::liquidation_fee();
}

//@ prop=C02 tier=quick kind=hold
//@ enc=LiquidationFeeParams::fee (via verif_fee hook), utils::apply_factor, Unsigned::checked_round_up_div, Price::pick_price, LiquidationFees accessors
//@ bound=width-reduced T=u16, DECIMALS=2: every u16 size, factor, receiver factor (also above UNIT), min/max price (incl. zero); each stage compared with the exact quotient of the previous stage
#[kani::proof]
fn c02_liquidation_fee_rounds_up_u16() {
    w16::liquidation_fee_stagewise();
}

//@ prop=C02 tier=quick kind=hold
//@ enc=PositionFees::{for_receiver,for_pool,total_cost_amount,total_cost_excluding_funding,set_borrowing_fees,set_liquidation_fees,set_funding_fees}, BorrowingFees::fee_amount_for_pool, LiquidationFees::fee_amount_for_pool, FeeParams::base_position_fees, LiquidationFeeParams::fee
//@ bound=width-reduced T=u8, DECIMALS=1 (UNIT 10): every u8 size, borrowing value, funding amount, non-zero prices, all factors in 0..=UNIT, liquidation fee present or absent
#[kani::proof]
fn c02_position_fees_accessors_add_up_u8() {
    w8::position_fees_accessors();
}

//@ prop=C02 tier=experimental kind=hold
//@ enc=PositionFees::{for_receiver,for_pool,total_cost_amount,total_cost_excluding_funding,set_borrowing_fees,set_liquidation_fees,set_funding_fees}, FeeParams::base_position_fees, LiquidationFeeParams::fee
//@ bound=width-reduced T=u16, DECIMALS=2: every u16 size, borrowing value, funding amount, non-zero prices, all factors in 0..=UNIT, liquidation fee present or absent
//@ timeout=5400 mem=30
#[kani::proof]
fn c02_position_fees_accessors_add_up_u16() {
    w16::position_fees_accessors();
}
