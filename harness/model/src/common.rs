//! Shared helpers: the width-reduced number types and exact reference arithmetic in a wider type.
//!
//! Harness bodies are written once inside a `macro_rules!` per property file and instantiated as
//! modules `w8` (T=u8, D=1, UNIT 10), `w16` (T=u16, D=2, UNIT 100), `w32` (T=u32, D=4, UNIT 10 000);
//! the reference type `R`/`RS` is u32/i32 for w8/w16 and u64/i64 for w32 (every reference product of
//! two `T` values is exact in `R`). The explicit `#[kani::proof]` functions call into these modules
//! (the driver's scanner needs literal `fn name(` lines).
use gmsol_model::pool::delta::BalanceChange;

/// Any of the three balance-change kinds.
pub fn any_balance_change() -> BalanceChange {
    let k: u8 = kani::any();
    kani::assume(k < 3);
    match k {
        0 => BalanceChange::Improved,
        1 => BalanceChange::Worsened,
        _ => BalanceChange::Unchanged,
    }
}
pub fn is_improved(b: BalanceChange) -> bool {
    matches!(b, BalanceChange::Improved)
}

/// Defines, inside a width module: `T`, `S` (signed companion), `R`/`RS` (wide reference types),
/// `D`, `UNIT`, `TMAX`, `SMIN`, `SMAX` and exact reference helpers.
#[macro_export]
macro_rules! width_prelude {
    ($t:ty, $s:ty, $r:ty, $rs:ty, $d:expr) => {
        pub type T = $t;
        pub type S = $s;
        pub type R = $r;
        pub type RS = $rs;
        pub const D: u8 = $d;
        pub const UNIT: R = <T as gmsol_model::fixed::FixedPointOps<D>>::UNIT as R;
        pub const TMAX: R = <$t>::MAX as R;
        pub const SMAX: RS = <$s>::MAX as RS;
        pub const SMIN: RS = <$s>::MIN as RS;
        #[inline]
        pub fn u(x: T) -> R {
            x as R
        }
        #[inline]
        pub fn s(x: S) -> RS {
            x as RS
        }
        /// `x` if it is representable in `T`.
        #[inline]
        pub fn fit(x: R) -> Option<R> {
            if x <= TMAX {
                Some(x)
            } else {
                None
            }
        }
        #[inline]
        pub fn fit_s(x: RS) -> Option<RS> {
            if x >= SMIN && x <= SMAX {
                Some(x)
            } else {
                None
            }
        }
        /// floor(a*b/c), exact (a, b are values of `T`, or the product is otherwise known to fit `R`).
        #[inline]
        pub fn mul_div_floor(a: R, b: R, c: R) -> R {
            a * b / c
        }
        #[inline]
        pub fn div_ceil(a: R, c: R) -> R {
            a / c + if a % c != 0 { 1 } else { 0 }
        }
        #[inline]
        pub fn mul_div_ceil(a: R, b: R, c: R) -> R {
            div_ceil(a * b, c)
        }
        /// `q == floor(p / c)` stated multiplicatively (no divider circuit): q*c <= p < (q+1)*c.
        #[inline]
        pub fn is_floor_div(q: R, p: R, c: R) -> bool {
            q * c <= p && p - q * c < c
        }
        /// `q == ceil(p / c)` stated multiplicatively: p <= q*c < p + c (c != 0).
        #[inline]
        pub fn is_ceil_div(q: R, p: R, c: R) -> bool {
            q * c >= p && q * c - p < c
        }
    };
}
