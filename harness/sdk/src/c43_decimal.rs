//! C43: the SDK's fixed-point <-> `rust_decimal::Decimal` conversions. The subject is the real code of
//! `/repo/crates/sdk/src/utils/fixed.rs`, reached through the `gmsol-sdk` crate (default features
//! off), running on the real `rust_decimal` 1.37.2 (the version pinned by `/repo/Cargo.lock`).
//!
//! Region names used below (from the doc comments and the tests `test_convert_*`, `test_rescale_*`):
//! * exact region: `|num| <= 2^96 - 1` (fits a `Decimal` mantissa) and `decimals <= 28`;
//! * lossy region (by design): `|num| > 2^96 - 1` (the value is cut to its 28 leading digits by
//!   `convert_by_change_the_scale`), and amounts with `decimals > 28` (divided by `10^(decimals-28)`,
//!   `Decimal::ZERO` above 47).
use gmsol_sdk::utils::{
    decimal_to_amount, decimal_to_signed_value, decimal_to_value, signed_amount_to_decimal,
    signed_fixed_to_decimal, signed_value_to_decimal, unsigned_amount_to_decimal,
    unsigned_fixed_to_decimal, unsigned_value_to_decimal,
};
use rust_decimal::Decimal;

/// 2^96 - 1: the largest mantissa of a `Decimal`.
const MAX_REPR: u128 = 0x0000_0000_FFFF_FFFF_FFFF_FFFF_FFFF_FFFF;

const POW10: [i128; 39] = {
    let mut t = [1i128; 39];
    let mut i = 1;
    while i < 39 {
        t[i] = t[i - 1] * 10;
        i += 1;
    }
    t
};

/// `format!` in the error paths returns an empty string (messages are not the subject; rendering a
/// symbolic `Decimal` is 29 rounds of 96-bit long division).
pub fn fmt_format(_a: std::fmt::Arguments<'_>) -> String {
    String::new()
}

/// Any valid `Decimal`: any 96-bit mantissa, any sign, any scale 0..=28.
fn any_decimal() -> Decimal {
    let (lo, mid, hi): (u32, u32, u32) = (kani::any(), kani::any(), kani::any());
    let neg: bool = kani::any();
    let scale: u8 = kani::any();
    kani::assume(scale <= 28);
    Decimal::from_parts(lo, mid, hi, neg, scale as u32)
}

// ---------------------------------------------------------------------------------------------
// Exact region: to -> from returns the original integer. One `decimal_to_*` call per harness (each
// costs ~90 s of symbolic execution: two 31-fold unwound rust_decimal rescale loops).
// ---------------------------------------------------------------------------------------------

//@ prop=C43 tier=quick kind=hold
//@ enc=gmsol_sdk::utils::fixed::unsigned_fixed_to_decimal, decimal_to_value, decimal_to_signed_value, rescale_to_mantissa, rust_decimal::Decimal::{try_from_i128_with_scale, rescale, mantissa, scale}
//@ bound=every u128 num <= 2^96-1 and every u8 decimals; unwind 31 (rust_decimal rescale loops run at most 29 times on a 96-bit mantissa)
//@ stubs=alloc::fmt::format returns an empty String (error-message rendering only)
//@ timeout=900
#[kani::proof]
#[kani::stub(alloc::fmt::format, fmt_format)]
#[kani::unwind(31)]
fn c43_unsigned_fixed_round_trip_96() {
    let n: u128 = kani::any();
    kani::assume(n <= MAX_REPR);
    let d: u8 = kani::any();
    match unsigned_fixed_to_decimal(n, d) {
        Some(dec) => {
            assert!(d <= 28, "C43: unsupported decimals accepted");
            assert!(dec.mantissa() == n as i128 && dec.scale() == d as u32, "C43: Decimal is not num * 10^-decimals");
            let back = decimal_to_value(dec, d);
            assert!(matches!(back, Ok(v) if v == n), "C43: unsigned value does not round-trip");
            kani::cover!(n == MAX_REPR && d == 28, "largest mantissa at the largest scale");
            std::mem::forget(back);
        }
        None => {
            assert!(d > 28, "C43: representable value with supported decimals rejected");
            kani::cover!(true, "decimals beyond 28 reported as None");
        }
    }
}

//@ prop=C43 tier=quick kind=hold
//@ enc=gmsol_sdk::utils::fixed::signed_fixed_to_decimal, unsigned_fixed_to_decimal, decimal_to_signed_value, rescale_to_mantissa, rust_decimal::Decimal::{try_from_i128_with_scale, neg, rescale, mantissa, scale}
//@ bound=every i128 num with |num| <= 2^96-1 and every u8 decimals; unwind 31
//@ stubs=alloc::fmt::format returns an empty String
//@ timeout=900
#[kani::proof]
#[kani::stub(alloc::fmt::format, fmt_format)]
#[kani::unwind(31)]
fn c43_signed_fixed_round_trip_96() {
    let n: i128 = kani::any();
    kani::assume(n.unsigned_abs() <= MAX_REPR);
    let d: u8 = kani::any();
    match signed_fixed_to_decimal(n, d) {
        Some(dec) => {
            assert!(d <= 28, "C43: unsupported decimals accepted");
            assert!(dec.mantissa() == n && dec.scale() == d as u32, "C43: Decimal is not num * 10^-decimals");
            let back = decimal_to_signed_value(dec, d);
            assert!(matches!(back, Ok(v) if v == n), "C43: signed value does not round-trip");
            kani::cover!(n < 0 && d > 0, "negative value");
            kani::cover!(n == -(MAX_REPR as i128), "most negative mantissa");
            std::mem::forget(back);
        }
        None => {
            assert!(d > 28, "C43: representable value with supported decimals rejected");
        }
    }
}

//@ prop=C43 tier=quick kind=hold
//@ enc=gmsol_sdk::utils::fixed::unsigned_amount_to_decimal, unsigned_fixed_to_decimal, decimal_to_amount, rescale_to_mantissa, rust_decimal::Decimal::{try_from_i128_with_scale, rescale, mantissa, scale}
//@ bound=every u64 amount, every decimals 0..=28; unwind 31
//@ stubs=alloc::fmt::format returns an empty String
//@ timeout=900
#[kani::proof]
#[kani::stub(alloc::fmt::format, fmt_format)]
#[kani::unwind(31)]
fn c43_unsigned_amount_round_trip() {
    let n: u64 = kani::any();
    let d: u8 = kani::any();
    kani::assume(d <= 28);
    let dec = unsigned_amount_to_decimal(n, d);
    assert!(dec.mantissa() == n as i128 && dec.scale() == d as u32, "C43: Decimal is not amount * 10^-decimals");
    let back = decimal_to_amount(dec, d);
    assert!(matches!(back, Ok(v) if v == n), "C43: amount does not round-trip");
    kani::cover!(n == u64::MAX && d == 28, "largest amount at the largest scale");
    std::mem::forget(back);
}

//@ prop=C43 tier=thorough kind=hold
//@ enc=gmsol_sdk::utils::fixed::signed_amount_to_decimal, unsigned_amount_to_decimal, decimal_to_amount, rescale_to_mantissa
//@ bound=every i64 amount (including i64::MIN), every decimals 0..=28; unwind 31
//@ stubs=alloc::fmt::format returns an empty String
//@ timeout=900
#[kani::proof]
#[kani::stub(alloc::fmt::format, fmt_format)]
#[kani::unwind(31)]
fn c43_signed_amount_round_trip() {
    let n: i64 = kani::any();
    let d: u8 = kani::any();
    kani::assume(d <= 28);
    let dec = signed_amount_to_decimal(n, d);
    // with c43_signed_fixed_round_trip_96 (a Decimal with mantissa n and scale d converts back to n) this
    // is the signed round trip; the call below adds: a negative amount is an error for the unsigned target
    assert!(dec.mantissa() == n as i128 && dec.scale() == d as u32, "C43: Decimal is not amount * 10^-decimals");
    let uback = decimal_to_amount(dec, d);
    if n < 0 {
        assert!(uback.is_err(), "C43: negative amount converted to an unsigned integer");
    } else {
        assert!(matches!(uback, Ok(v) if v == n as u64), "C43: non-negative amount does not round-trip");
    }
    kani::cover!(n == i64::MIN, "most negative amount");
    kani::cover!(n == i64::MAX && d == 28, "largest signed amount at the largest scale");
    std::mem::forget(uback);
}

//@ prop=C43 tier=thorough kind=hold
//@ enc=gmsol_sdk::utils::fixed::signed_fixed_to_decimal, decimal_to_value, decimal_to_signed_value, rescale_to_mantissa
//@ bound=every i128 num with |num| <= 2^96-1, every decimals 0..=28; unwind 31
//@ stubs=alloc::fmt::format returns an empty String
//@ timeout=900
#[kani::proof]
#[kani::stub(alloc::fmt::format, fmt_format)]
#[kani::unwind(31)]
fn c43_unsigned_target_rejects_negative_value() {
    let n: i128 = kani::any();
    kani::assume(n.unsigned_abs() <= MAX_REPR);
    let d: u8 = kani::any();
    kani::assume(d <= 28);
    let dec = signed_fixed_to_decimal(n, d).unwrap();
    // the unsigned conversion of a negative value must be an error, not a wrapped or absolute integer
    let uback = decimal_to_value(dec, d);
    if n < 0 {
        assert!(uback.is_err(), "C43: negative value converted to an unsigned integer");
    } else {
        assert!(matches!(uback, Ok(v) if v == n as u128), "C43: non-negative value does not round-trip");
    }
    kani::cover!(n == -1, "smallest negative value");
    std::mem::forget(uback);
}

// ---------------------------------------------------------------------------------------------
// No conversion panics, for every input.
// ---------------------------------------------------------------------------------------------

//@ prop=C43 tier=quick kind=hold
//@ enc=gmsol_sdk::utils::fixed::unsigned_fixed_to_decimal (incl. convert_by_change_the_scale), signed_fixed_to_decimal, u128::ilog10, u128::pow, rust_decimal::Decimal::try_from_i128_with_scale
//@ bound=every u128 / i128 num and every u8 decimals (no bound); unwind 8 (u128::pow square-and-multiply on an exponent <= 11)
//@ stubs=alloc::fmt::format returns an empty String
#[kani::proof]
#[kani::stub(alloc::fmt::format, fmt_format)]
#[kani::unwind(8)]
fn c43_fixed_to_decimal_never_panics() {
    let n: u128 = kani::any();
    let d: u8 = kani::any();
    // Kani turns every reachable panic (expect/unwrap/assert/overflow/`from_i128_with_scale`) into a failed check
    let r = unsigned_fixed_to_decimal(n, d);
    if let Some(dec) = r {
        // a Decimal is produced only with a valid scale, and never more decimals than asked for
        assert!(dec.scale() <= 28 && dec.scale() <= d as u32, "C43: invalid scale");
        assert!((dec.mantissa() == 0) == (n == 0), "C43: zero and non-zero confused");
    }
    if n > MAX_REPR {
        // documented lossy region: the value keeps its 28 leading digits, i.e. `cut = ilog10(num) - 27`
        // (1..=11) trailing digits and as many decimals are dropped; None exactly when fewer than `cut`
        // decimals are available or more than 28 would remain
        let cut = n.ilog10() - 27;
        match r {
            Some(dec) => {
                assert!(d as u32 >= cut && dec.scale() == d as u32 - cut, "C43: scale is not decimals - dropped digits");
                assert!(dec.mantissa() >= POW10[27] && dec.mantissa() < POW10[28], "C43: mantissa does not have 28 digits");
            }
            None => assert!((d as u32) < cut || d as u32 - cut > 28, "C43: representable 28-digit value reported as None"),
        }
    }
    kani::cover!(r.is_some() && n > MAX_REPR, "value above 96 bits converted");
    kani::cover!(r.is_none() && n > MAX_REPR && d <= 28, "value above 96 bits with too few decimals reported as None");
    kani::cover!(r.is_none() && n > MAX_REPR && d > 28, "value above 96 bits with too many decimals reported as None");
    let s: i128 = kani::any();
    let rs = signed_fixed_to_decimal(s, d);
    if let Some(dec) = rs {
        assert!(dec.mantissa() <= 0 || s > 0, "C43: sign lost");
        assert!(dec.mantissa() >= 0 || s < 0, "C43: sign lost");
    }
    kani::cover!(rs.is_some() && s == i128::MIN, "i128::MIN converted");
}

//@ prop=C43 tier=quick kind=hold
//@ enc=gmsol_sdk::utils::fixed::{unsigned_value_to_decimal, signed_value_to_decimal, unsigned_amount_to_decimal, signed_amount_to_decimal, unsigned_fixed_to_decimal}
//@ bound=every u128 / i128 value (MARKET_DECIMALS = 20), every u64 / i64 amount with every u8 decimals; unwind 8
//@ stubs=alloc::fmt::format returns an empty String
#[kani::proof]
#[kani::stub(alloc::fmt::format, fmt_format)]
#[kani::unwind(8)]
fn c43_value_and_amount_to_decimal_never_panic() {
    let v: u128 = kani::any();
    let dv = unsigned_value_to_decimal(v);
    if v <= MAX_REPR {
        assert!(dv.mantissa() == v as i128 && dv.scale() == 20, "C43: value is not num * 10^-20");
    }
    let sv: i128 = kani::any();
    let dsv = signed_value_to_decimal(sv);
    if sv.unsigned_abs() <= MAX_REPR {
        assert!(dsv.mantissa() == sv && dsv.scale() == 20, "C43: signed value is not num * 10^-20");
    }
    let d: u8 = kani::any();
    let a: u64 = kani::any();
    let da = unsigned_amount_to_decimal(a, d);
    assert!(da.scale() <= 28, "C43: invalid scale");
    if d > 47 {
        // documented: beyond 28 + 19 decimals nothing of a u64 is left
        assert!(da.mantissa() == 0, "C43: amount with more than 47 decimals must be zero");
    } else if d > 28 {
        // documented: divided by 10^(decimals - 28) at scale 28: zero exactly below that power of ten
        assert!(da.scale() == 28, "C43: amount beyond 28 decimals must be at scale 28");
        assert!((da.mantissa() == 0) == ((a as i128) < POW10[(d - 28) as usize]), "C43: amount beyond 28 decimals scaled by the wrong power of ten");
        assert!(da.mantissa() <= a as i128, "C43: amount grew");
    }
    let sa: i64 = kani::any();
    let dsa = signed_amount_to_decimal(sa, d);
    assert!(dsa.mantissa() <= 0 || sa > 0, "C43: sign of the amount lost");
    assert!(dsa.mantissa() >= 0 || sa < 0, "C43: sign of the amount lost");
    kani::cover!(d == 47 && da.mantissa() == 1, "last non-zero digit at 47 decimals");
    kani::cover!(sa == i64::MIN && d == 29, "i64::MIN beyond 28 decimals");
}

/// `i128::MAX / 10^e`: the largest |mantissa| whose product with `10^e` fits i128.
const FIT: [i128; 39] = {
    let mut t = [0i128; 39];
    let mut i = 0;
    while i < 39 {
        t[i] = i128::MAX / POW10[i];
        i += 1;
    }
    t
};

/// `decimal_to_signed_value` on one Decimal and every u8 decimals, against the exact classification.
fn from_direction(dec: Decimal, exact: bool) {
    let d: u8 = kani::any();
    let (m, s) = (dec.mantissa(), dec.scale());
    // never panics (Kani checks), and:
    let r = decimal_to_signed_value(dec, d);
    if s <= d as u32 {
        // no fraction digit is dropped: the exact result is m * 10^(d-s); Err exactly when it does not fit
        // i128 (for a zero mantissa the code also gives up when 10^(d-28) alone overflows: d >= 67)
        let e = d as u32 - s;
        let fits = if m == 0 { d < 67 } else { e <= 38 && m.abs() <= FIT[if e <= 38 { e as usize } else { 0 }] };
        match &r {
            Ok(v) => {
                assert!(fits, "C43: overflowing value converted");
                assert!((*v < 0) == (m < 0) && (*v == 0) == (m == 0), "C43: sign or zero-ness changed");
                if exact && m != 0 {
                    // the compensated product itself (fits: no overflow in the reference)
                    assert!(*v == m * POW10[e as usize], "C43: result is not mantissa * 10^(decimals - scale)");
                }
            }
            Err(_) => assert!(!fits, "C43: representable value rejected"),
        }
        kani::cover!(r.is_ok() && d > 28 && m != 0, "Ok beyond 28 decimals (compensated)");
        kani::cover!(r.is_err() && m != 0 && e <= 38, "overflow of the product reported as Err");
        kani::cover!(r.is_err() && m == 0, "zero with too many decimals reported as Err");
    } else {
        // more fraction digits than `decimals`: rounded by rust_decimal (see finding c43_from_rounds_fraction);
        // still: always Ok, sign kept, magnitude not increased
        match &r {
            Ok(v) => assert!(v.abs() <= m.abs() && (*v <= 0 || m > 0) && (*v >= 0 || m < 0), "C43: rounding changed sign or grew the value"),
            Err(_) => assert!(false, "C43: dropping fraction digits cannot overflow"),
        }
    }
    std::mem::forget(r);
}


//@ prop=C43 tier=quick kind=hold
//@ enc=gmsol_sdk::utils::fixed::{decimal_to_signed_value, rescale_to_mantissa}, rust_decimal::Decimal::rescale (ops::array::rescale, mul_by_10, div_by_u32), i128::checked_pow, i128::checked_mul
//@ bound=every Decimal with a mantissa below 2^32 (either sign, scale 0..=28) and every u8 decimals; unwind 31. The full 96-bit mantissa range is c43_decimal_to_signed_value_any (thorough)
//@ stubs=alloc::fmt::format returns an empty String
//@ timeout=900
#[kani::proof]
#[kani::stub(alloc::fmt::format, fmt_format)]
#[kani::unwind(31)]
fn c43_decimal_to_signed_value_small_mantissa() {
    let lo: u32 = kani::any();
    let neg: bool = kani::any();
    let scale: u8 = kani::any();
    kani::assume(scale <= 28);
    from_direction(Decimal::from_parts(lo, 0, 0, neg, scale as u32), false);
}

/// Exact value of the compensated product for an integer Decimal (scale 0) with a 32-bit mantissa and a
/// concrete `decimals`: `rescale` stops after 19..=28 multiplications by ten (when the 96-bit mantissa
/// would overflow) and the code multiplies by the remaining power of ten.
fn compensation_exact(d: u8) {
    let lo: u32 = kani::any();
    let neg: bool = kani::any();
    kani::assume(lo != 0);
    let dec = Decimal::from_parts(lo, 0, 0, neg, 0);
    let m = dec.mantissa();
    let r = decimal_to_signed_value(dec, d);
    let fits = m.abs() <= FIT[d as usize];
    match &r {
        Ok(v) => assert!(fits && *v == m * POW10[d as usize], "C43: result is not mantissa * 10^decimals"),
        Err(_) => assert!(!fits, "C43: representable value rejected"),
    }
    std::mem::forget(r);
}

//@ prop=C43 tier=experimental kind=hold
//@ enc=gmsol_sdk::utils::fixed::{decimal_to_signed_value, rescale_to_mantissa}, rust_decimal::Decimal::rescale, i128::checked_pow, i128::checked_mul
//@ bound=every non-zero integer Decimal (scale 0) with |mantissa| < 2^32, decimals = 20 (the repo test test_rescale_truncation_is_compensated generalised to every 32-bit mantissa): exact value mantissa * 10^20; unwind 31. DOES NOT FINISH (900 s: equivalence of the 96-bit times-ten chain plus i128 product with one 128-bit constant multiplication); kept for reference, never selected
//@ stubs=alloc::fmt::format returns an empty String
//@ timeout=900
#[kani::proof]
#[kani::stub(alloc::fmt::format, fmt_format)]
#[kani::unwind(31)]
fn c43_compensation_exact_20() {
    compensation_exact(20);
}

//@ prop=C43 tier=experimental kind=hold
//@ enc=gmsol_sdk::utils::fixed::{decimal_to_signed_value, rescale_to_mantissa}, rust_decimal::Decimal::rescale, i128::checked_pow, i128::checked_mul
//@ bound=every non-zero integer Decimal (scale 0) with |mantissa| < 2^32, decimals = 30 (beyond rust_decimal's maximum scale; overflow of i128 reachable): exact value or Err exactly on overflow; unwind 31. Not run to completion (see c43_compensation_exact_20)
//@ stubs=alloc::fmt::format returns an empty String
//@ timeout=3600
#[kani::proof]
#[kani::stub(alloc::fmt::format, fmt_format)]
#[kani::unwind(31)]
fn c43_compensation_exact_30() {
    compensation_exact(30);
}

//@ prop=C43 tier=thorough kind=hold
//@ enc=gmsol_sdk::utils::fixed::{decimal_to_signed_value, rescale_to_mantissa}, rust_decimal::Decimal::rescale (ops::array::rescale, mul_by_10, div_by_u32), i128::checked_pow, i128::checked_mul
//@ bound=every valid Decimal (any 96-bit mantissa, either sign, scale 0..=28) and every u8 decimals; unwind 31
//@ stubs=alloc::fmt::format returns an empty String
//@ timeout=3600
#[kani::proof]
#[kani::stub(alloc::fmt::format, fmt_format)]
#[kani::unwind(31)]
fn c43_decimal_to_signed_value_any() {
    from_direction(any_decimal(), false);
}

// ---------------------------------------------------------------------------------------------
// By-design deviations from the literal property text (known findings): the strict clause asserted
// ONLY inside the keyed region; expected to FAIL.
// ---------------------------------------------------------------------------------------------

//@ prop=C43 tier=thorough kind=finding:c43_lossy_rescale
//@ enc=gmsol_sdk::utils::fixed::unsigned_fixed_to_decimal (convert_by_change_the_scale), decimal_to_value, rescale_to_mantissa
//@ bound=region: u128 num > 2^96-1 with decimals 0..=28; strict clause "Some(d) => from(d) == num" (the code cuts num to its 28 leading digits instead of returning None); unwind 31
//@ stubs=alloc::fmt::format returns an empty String
//@ timeout=900
#[kani::proof]
#[kani::stub(alloc::fmt::format, fmt_format)]
#[kani::unwind(31)]
fn c43_lossy_fixed_above_96_bits() {
    let n: u128 = kani::any();
    kani::assume(n > MAX_REPR);
    let d: u8 = kani::any();
    kani::assume(d <= 28);
    if let Some(dec) = unsigned_fixed_to_decimal(n, d) {
        let back = decimal_to_value(dec, d);
        assert!(matches!(back, Ok(v) if v == n), "C43: value above 96 bits silently cut to 28 digits");
        std::mem::forget(back);
    }
}

//@ prop=C43 tier=quick kind=finding:c43_lossy_rescale
//@ enc=gmsol_sdk::utils::fixed::unsigned_amount_to_decimal, decimal_to_amount, rescale_to_mantissa
//@ bound=region: u64 amount with decimals 29..=255; strict clause "from(to(amount)) == amount" (the code divides by 10^(decimals-28), zero above 47 decimals); unwind 31
//@ stubs=alloc::fmt::format returns an empty String
//@ timeout=900
#[kani::proof]
#[kani::stub(alloc::fmt::format, fmt_format)]
#[kani::unwind(31)]
fn c43_lossy_amount_decimals_above_28() {
    let n: u64 = kani::any();
    let d: u8 = kani::any();
    kani::assume(d > 28);
    let dec = unsigned_amount_to_decimal(n, d);
    let back = decimal_to_amount(dec, d);
    assert!(matches!(back, Ok(v) if v == n), "C43: amount with more than 28 decimals silently scaled down");
    std::mem::forget(back);
}

//@ prop=C43 tier=quick kind=finding:c43_from_rounds_fraction
//@ enc=gmsol_sdk::utils::fixed::{decimal_to_signed_value, rescale_to_mantissa}, rust_decimal::Decimal::rescale (rounding)
//@ bound=region (a subset of it): Decimal with scale = decimals + 1 (decimals 0..=27) whose last digit is non-zero, i.e. value * 10^decimals is not an integer; strict clause "not representable => Err" (the code rounds half-up); unwind 31
//@ stubs=alloc::fmt::format returns an empty String
//@ timeout=900
#[kani::proof]
#[kani::stub(alloc::fmt::format, fmt_format)]
#[kani::unwind(31)]
fn c43_from_rounds_extra_fraction_digit() {
    let dec = any_decimal();
    let d: u8 = kani::any();
    kani::assume(dec.scale() == d as u32 + 1);
    kani::assume(dec.mantissa() % 10 != 0);
    let r = decimal_to_signed_value(dec, d);
    assert!(r.is_err(), "C43: a Decimal with more fraction digits than `decimals` is rounded instead of rejected");
    std::mem::forget(r);
}

//@ prop=C43 tier=experimental kind=hold
//@ enc=gmsol_sdk::utils::fixed::unsigned_fixed_to_decimal (convert_by_change_the_scale), decimal_to_value, rescale_to_mantissa
//@ bound=lossy region: u128 num > 2^96-1, decimals 0..=28: what the round trip still guarantees there: Ok(v) with v <= num and num - v < 10^(ilog10(num) - 27) (only the digits below the 28 leading ones are lost); unwind 31
//@ stubs=alloc::fmt::format returns an empty String
//@ timeout=1800
#[kani::proof]
#[kani::stub(alloc::fmt::format, fmt_format)]
#[kani::unwind(31)]
fn c43_lossy_region_error_bound() {
    let n: u128 = kani::any();
    kani::assume(n > MAX_REPR);
    let d: u8 = kani::any();
    kani::assume(d <= 28);
    if let Some(dec) = unsigned_fixed_to_decimal(n, d) {
        let cut = n.ilog10() - 27;
        let back = decimal_to_value(dec, d);
        match &back {
            Ok(v) => assert!(*v <= n && n - *v < POW10[cut as usize] as u128, "C43: more than the trailing digits lost"),
            Err(_) => assert!(false, "C43: a value produced by the to-direction is rejected by the from-direction"),
        }
        std::mem::forget(back);
    }
}
