//! Kani harnesses over the real `gmsol-sdk` decimal conversion helpers (`crates/sdk/src/utils/fixed.rs`).
#![allow(clippy::all)]
#![allow(unused)]

#[cfg(kani)]
mod c43_decimal;
