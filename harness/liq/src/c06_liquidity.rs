//! C06 (deposit / withdraw round trip) on the real `utils::{usd_to_market_token_amount,
//! market_token_amount_to_usd}`, `LiquidityMarketExt::{pool_value, market_token_value}`,
//! `Deposit::execute`, `Withdrawal::execute`, instantiated at `u8` (UNIT 10) / `u16` (UNIT 100).

use gmsol_model::{
    fixed::FixedPointOps,
    num::{MulDiv, Num, Unsigned, UnsignedAbs},
    price::{Price, Prices},
    utils::{market_token_amount_to_usd, usd_to_market_token_amount},
    BaseMarket, LiquidityMarketExt, LiquidityMarketMutExt, MarketAction, PnlFactorKind,
};
use num_traits::CheckedSub;

use crate::{
    vmarket::{prices, sym, VMarket, VPool},
    wide::{cdiv, fdiv, Wide, W},
};

// ------------------------------------------------------------------------------------------------
// Component: usd <-> market token conversions (crates/model/src/utils.rs)
// ------------------------------------------------------------------------------------------------

/// `usd_to_market_token_amount` against its exact specification, stated with multiplications only
/// (`q == floor(n/d)  <=>  q*d <= n < (q+1)*d`), which is what the SAT solver digests best.
fn check_usd_to_amount<T, O>(usd: T, pool: T, supply: T, divisor: T)
where
    O: Wide,
    T: MulDiv + Num + W<O = O> + Copy,
{
    let z = O::zero();
    let one = O::one();
    let umax = T::max_value_w();
    let (u, p, s, d) = (usd.w(), pool.w(), supply.w(), divisor.w());
    let is_floor = |q: O, n: O, den: O| -> bool { q * den <= n && (q + one) * den > n };
    match usd_to_market_token_amount(usd, pool, supply, divisor) {
        Some(a) => {
            let a = a.w();
            assert!(d != z, "C06: zero divisor accepted");
            if s == z && p == z {
                // first deposit into an empty pool: one market token per `divisor` of USD value
                assert!(is_floor(a, u, d), "C06: first deposit not priced at one USD (divisor) per market token, rounded down");
            } else if s == z {
                assert!(is_floor(a, p + u, d), "C06: zero-supply mint != floor((pool+usd)/divisor)");
            } else {
                assert!(p != z, "C06: mint against an empty pool with non-zero supply");
                // rounded down: minted * pool <= supply * usd < (minted + 1) * pool
                assert!(is_floor(a, s * u, p), "C06: minted market tokens != floor(supply*usd/pool)");
            }
            kani::cover!(s > z && p > z && (s * u) % p != z, "mint with remainder");
            kani::cover!(s == z && p == z && a > z, "first deposit");
            kani::cover!(s == z && p > z, "zero supply, non-empty pool");
        }
        None => {
            // fails only for a zero divisor, an empty pool with supply, or an unrepresentable result
            let legit = d == z
                || (s == z && p != z && p + u > umax)
                || (s != z && p == z)
                || (s != z && p != z && s * u >= (umax + one) * p);
            assert!(legit, "C06: usd_to_market_token_amount failed where the specification succeeds");
        }
    }
}

fn check_amount_to_usd<T, O>(amount: T, pool: T, supply: T)
where
    O: Wide,
    T: MulDiv + Num + W<O = O> + Copy,
{
    let z = O::zero();
    match market_token_amount_to_usd(&amount, &pool, &supply) {
        Some(v) => {
            assert!(supply.w() > z, "C06: market_token_amount_to_usd succeeded with zero supply");
            assert!(
                v.w() * supply.w() <= pool.w() * amount.w() && (v.w() + O::one()) * supply.w() > pool.w() * amount.w(),
                "C06: market_token_amount_to_usd != floor(pool*amount/supply)"
            );
            kani::cover!(v.w() * supply.w() != pool.w() * amount.w(), "redeem with remainder");
        }
        None => {
            assert!(
                supply.w() == z || pool.w() * amount.w() >= (T::max_value_w() + O::one()) * supply.w(),
                "C06: market_token_amount_to_usd failed although representable"
            );
        }
    }
}

//@ prop=C06 tier=quick kind=hold
//@ enc=utils::usd_to_market_token_amount, utils::market_token_amount_to_usd, MulDiv::checked_mul_div (narrow impl)
//@ bound=T=u8: every usd value, pool value, supply, divisor (incl. zero) and market token amount
#[kani::proof]
fn c06_conversions_u8() {
    check_usd_to_amount::<u8, i32>(kani::any(), kani::any(), kani::any(), kani::any());
    check_amount_to_usd::<u8, i32>(kani::any(), kani::any(), kani::any());
}

//@ prop=C06 tier=experimental kind=hold
//@ enc=utils::usd_to_market_token_amount, utils::market_token_amount_to_usd, MulDiv::checked_mul_div (narrow impl)
//@ bound=T=u16: every usd value, pool value, supply, divisor (incl. zero) and market token amount -- does NOT finish within 900 s (16-bit division by a symbolic divisor), never selected
#[kani::proof]
fn c06_conversions_u16() {
    check_usd_to_amount::<u16, i64>(kani::any(), kani::any(), kani::any(), kani::any());
    check_amount_to_usd::<u16, i64>(kani::any(), kani::any(), kani::any());
}

/// Conversion-level round trip: value `v` is converted to market tokens against (pool value `p`,
/// supply `s`), the pool grows by at most `v` (fees and negative impact only make it smaller...
/// here: exactly by `dv <= v`), and the minted tokens are redeemed against the new pool and supply.
/// The redeemed value never exceeds `v`, and the value per token of the old supply does not drop.
pub fn check_conversion_round_trip<T, O>(v: T, p: T, s: T)
where
    O: Wide,
    T: MulDiv + Num + W<O = O> + Copy + CheckedSub,
{
    let z = O::zero();
    kani::assume(s.w() > z && p.w() > z);
    let Some(minted) = usd_to_market_token_amount(v, p, s, T::one()) else { return };
    let (Some(p2), Some(s2)) = (p.checked_add(&v), s.checked_add(&minted)) else { return };
    let Some(back) = market_token_amount_to_usd(&minted, &p2, &s2) else { return };
    assert!(back.w() <= v.w(), "C06: conversion round trip returns more value than deposited");
    // other LPs: (p2 - back) / (s2 - minted) >= p / s, cross-multiplied (exact)
    assert!((p2.w() - back.w()) * s.w() >= p.w() * (s2.w() - minted.w()), "C06: value per market token of the remaining supply dropped");
    // mint leg alone: p2 / s2 >= p / s
    assert!(p2.w() * s.w() >= p.w() * s2.w(), "C06: mint lowered the value per market token");
    kani::cover!(minted.w() > z && back.w() > z && back.w() < v.w(), "lossy round trip");
    kani::cover!(minted.w() > z && back.w() == v.w(), "exact round trip");
}

fn conversion_round_trip_bounded(limit: u8) {
    let (v, p, s): (u8, u8, u8) = (kani::any(), kani::any(), kani::any());
    kani::assume(v <= limit && p <= limit && s <= limit);
    check_conversion_round_trip::<u8, i32>(v, p, s);
}

//@ prop=C06 tier=quick kind=hold
//@ enc=utils::usd_to_market_token_amount, utils::market_token_amount_to_usd
//@ bound=T=u8 with deposited value, pool value (> 0) and supply (> 0) each <= 63 (the non-linear round-trip inequality is hard for the SAT solver: 6-bit values take ~1 min, 7-bit values are the thorough variant, full 8-bit values do not finish in 10 min)
#[kani::proof]
fn c06_conversion_round_trip_6bit() {
    conversion_round_trip_bounded(63);
}

//@ prop=C06 tier=thorough kind=hold
//@ enc=utils::usd_to_market_token_amount, utils::market_token_amount_to_usd
//@ bound=T=u8 with deposited value, pool value (> 0) and supply (> 0) each <= 127
//@ timeout=3600
#[kani::proof]
fn c06_conversion_round_trip_7bit() {
    conversion_round_trip_bounded(127);
}

// ------------------------------------------------------------------------------------------------
// Component: pool_value composition (crates/model/src/market/liquidity.rs)
// ------------------------------------------------------------------------------------------------

/// Exact reference of `LiquidityMarketExt::pool_value` over mathematical integers for a market
/// whose borrowing clock reads zero elapsed seconds (then the pending borrowing fee is
/// `floor(open_interest * cumulative_factor / UNIT) - total_borrowing`, independent of the
/// per-second factor). Returns `None` when some intermediate value leaves the range in which the
/// reference is meaningful (the harness only compares on `Ok`).
pub fn ref_pool_value<T, O, const D: u8>(
    m: &VMarket<T, D>,
    p: &Prices<T>,
    kind_is_deposit: bool,
    maximize: bool,
) -> O
where
    O: Wide,
    T: FixedPointOps<D> + CheckedSub + W<O = O> + Copy + PartialEq,
    T::Signed: Num + UnsignedAbs<Unsigned = T> + TryFrom<T> + W<O = O> + Copy,
{
    let (long_net, short_net, fees, impact) = ref_pool_value_parts::<T, O, D>(m, p, kind_is_deposit, maximize);
    long_net + short_net + fees - impact
}

/// The four terms of the pool value: (long liquidity value - capped long pnl,
/// short liquidity value - capped short pnl, pool share of pending borrowing fees,
/// position-impact-pool value).
pub fn ref_pool_value_parts<T, O, const D: u8>(
    m: &VMarket<T, D>,
    p: &Prices<T>,
    kind_is_deposit: bool,
    maximize: bool,
) -> (O, O, O, O)
where
    O: Wide,
    T: FixedPointOps<D> + CheckedSub + W<O = O> + Copy + PartialEq,
    T::Signed: Num + UnsignedAbs<Unsigned = T> + TryFrom<T> + W<O = O> + Copy,
{
    let z = O::zero();
    let unit = <T as FixedPointOps<D>>::UNIT.w();
    let pick = |pr: &Price<T>, max: bool| if max { pr.max.w() } else { pr.min.w() };
    let long_value = m.primary.long.w() * pick(&p.long_token_price, maximize);
    let short_value = m.primary.short.w() * pick(&p.short_token_price, maximize);

    // pending borrowing fees, pool share
    let oi = |long: bool| if long { m.oi_long.long.w() + m.oi_long.short.w() } else { m.oi_short.long.w() + m.oi_short.short.w() };
    let oit = |long: bool| if long { m.oit_long.long.w() + m.oit_long.short.w() } else { m.oit_short.long.w() + m.oit_short.short.w() };
    let pending = |long: bool| {
        let cum = if long { m.borrowing_factor.long.w() } else { m.borrowing_factor.short.w() };
        let tb = if long { m.total_borrowing.long.w() } else { m.total_borrowing.short.w() };
        fdiv(oi(long) * cum, unit) - tb
    };
    let total_fees = pending(true) + pending(false);
    let fees = fdiv(total_fees * (unit - m.b_receiver_factor.w()), unit);

    // net pnl, each side capped by max_pnl_factor(kind, side) * side pool value
    let pnl = |long: bool| -> O {
        if oi(long) == z && oit(long) == z {
            return z;
        }
        // pool value is maximised <=> pnl is minimised: long pnl uses the min index price, short the max
        let pnl_max = !maximize;
        let price = if long ^ pnl_max { p.index_token_price.min.w() } else { p.index_token_price.max.w() };
        let value = oit(long) * price;
        if long { value - oi(long) } else { oi(long) - value }
    };
    let cap = |long: bool, x: O| -> O {
        if x > z {
            let f = match (kind_is_deposit, long) {
                (true, true) => m.pnl_deposit_long.w(),
                (true, false) => m.pnl_deposit_short.w(),
                (false, true) => m.pnl_withdrawal_long.w(),
                (false, false) => m.pnl_withdrawal_short.w(),
            };
            let side_value = if long { long_value } else { short_value };
            let max = fdiv(side_value * f, unit);
            if x > max { max } else { x }
        } else {
            x
        }
    };
    let long_net = long_value - cap(true, pnl(true));
    let short_net = short_value - cap(false, pnl(false));

    // position impact pool (after the pending distribution), at the index price that minimises the pool value
    let current = m.position_impact.long.w();
    let min_amount = m.pi_min_pool_amount.w();
    let next = if m.pi_distribute_factor.w() == z || current <= min_amount {
        current
    } else {
        // the duration is converted into the number type first (fails above its maximum)
        let dur = if m.passed_pi_distribution > 255 { 255i32 } else { m.passed_pi_distribution as i32 };
        let mut dist = fdiv(O::lit(dur) * m.pi_distribute_factor.w(), unit);
        if dist > current - min_amount {
            dist = current - min_amount;
        }
        current - dist
    };
    let impact = next * pick(&p.index_token_price, !maximize);
    (long_net, short_net, fees, impact)
}

fn pool_value_market_u8() -> VMarket<u8, 1> {
    let mut m: VMarket<u8, 1> = sym::market_all();
    m.passed_borrowing = 0;
    kani::assume(m.passed_pi_distribution <= 255);
    // borrowing factor exponents: whole units only (0 or 1.0), no power loop
    kani::assume(m.b_exponent_long == 0 || m.b_exponent_long == 10);
    kani::assume(m.b_exponent_short == 0 || m.b_exponent_short == 10);
    m
}

pub fn check_pool_value_u8(m: &VMarket<u8, 1>, p: &Prices<u8>, kind_is_deposit: bool, maximize: bool) -> Option<i8> {
    let kind = if kind_is_deposit { PnlFactorKind::MaxAfterDeposit } else { PnlFactorKind::MaxAfterWithdrawal };
    match m.pool_value(p, kind, maximize) {
        Ok(v) => {
            let want: i32 = ref_pool_value::<u8, i32, 1>(m, p, kind_is_deposit, maximize);
            assert!(v as i32 == want, "C06: pool_value differs from liquidity value + pending borrowing fees (pool share) - capped net pnl - impact pool value");
            Some(v)
        }
        Err(e) => {
            std::mem::forget(e);
            None
        }
    }
}

//@ prop=C06 tier=thorough kind=hold
//@ enc=LiquidityMarketExt::pool_value, BaseMarketExt::pool_value_without_pnl_for_one_side, BaseMarketExt::pnl, MarketUtils::cap_pnl, BorrowingFeeMarketExt::total_pending_borrowing_fees, BorrowingFeeMarketExt::next_cumulative_borrowing_factor, BorrowingFeeMarketExt::borrowing_factor_per_second, PositionImpactMarketExt::pending_position_impact_pool_distribution_amount, utils::apply_factor, Price::pick_price, Price::pick_price_for_pnl
//@ bound=T=u8 DECIMALS=1 (UNIT 10): every pool, open interest, cumulative borrowing factor, total borrowing, impact pool, pnl factor, receiver factor, distribution parameter and clock (<= 255 s), all six prices, both pnl-factor kinds, maximize on/off; borrowing clock reads 0 s elapsed; borrowing exponents in {0, 1.0}
//@ timeout=3600 mem=20
#[kani::proof]
#[kani::unwind(1)]
fn c06_pool_value_composition_u8() {
    let m = pool_value_market_u8();
    let p = prices(sym::price_u8(), sym::price_u8(), sym::price_u8());
    let maximize: bool = kani::any();
    let r = check_pool_value_u8(&m, &p, kani::any(), maximize);
    kani::cover!(matches!(r, Some(v) if v > 0), "positive pool value");
    kani::cover!(matches!(r, Some(v) if v < 0), "negative pool value");
    kani::cover!(r.is_some() && m.oit_long.long > 0 && m.oi_long.long < m.oit_long.long, "long pnl present");
    kani::cover!(r.is_some() && m.position_impact.long > 0 && m.pi_distribute_factor > 0 && m.passed_pi_distribution > 0, "impact pool with pending distribution");
    kani::cover!(r.is_some() && m.total_borrowing.long == 0 && m.borrowing_factor.long > 0 && m.oi_long.long >= 10, "pending borrowing fee");
}

// Quick-tier slices of the same comparison: one group of terms symbolic at a time (a concrete
// field lets the symbolic execution skip part of the callee tree; the all-symbolic harness above
// is the thorough variant).

//@ prop=C06 tier=quick kind=hold
//@ enc=LiquidityMarketExt::pool_value, BaseMarketExt::pool_value_without_pnl_for_one_side, PositionImpactMarketExt::pending_position_impact_pool_distribution_amount, Price::pick_price
//@ bound=T=u8 DECIMALS=1: liquidity pool, position impact pool, distribution factor / minimum / clock (<= 255 s), all six prices, both pnl-factor kinds, maximize on/off symbolic; no open interest, no borrowing state
#[kani::proof]
#[kani::unwind(1)]
fn c06_pool_value_liquidity_and_impact_u8() {
    let mut m = base_market_u8();
    m.primary = sym::pool();
    m.position_impact = sym::pool();
    m.pi_distribute_factor = kani::any();
    m.pi_min_pool_amount = kani::any();
    m.passed_pi_distribution = kani::any();
    kani::assume(m.passed_pi_distribution <= 255);
    let p = prices(sym::price_u8(), sym::price_u8(), sym::price_u8());
    let maximize: bool = kani::any();
    let r = check_pool_value_u8(&m, &p, kani::any(), maximize);
    kani::cover!(matches!(r, Some(v) if v > 0) && maximize && p.long_token_price.min < p.long_token_price.max && m.primary.long > 0, "maximised with a price spread");
    kani::cover!(matches!(r, Some(v) if v < 0), "negative pool value (impact pool worth more than the liquidity)");
    kani::cover!(r.is_some() && m.position_impact.long > m.pi_min_pool_amount && m.pi_distribute_factor > 0 && m.passed_pi_distribution > 10, "impact pool with pending distribution");
}

//@ prop=C06 tier=quick kind=hold
//@ enc=LiquidityMarketExt::pool_value, BaseMarketExt::pnl, BaseMarketExt::open_interest, BaseMarketExt::open_interest_in_tokens, MarketUtils::cap_pnl, BaseMarket::pnl_factor_config (VMarket), Price::pick_price_for_pnl, utils::apply_factor
//@ bound=T=u8 DECIMALS=1: liquidity pool, all four open-interest pools (usd and tokens, long and short), the four deposit/withdrawal max-pnl factors, all six prices, both pnl-factor kinds, maximize on/off symbolic; cumulative borrowing factor and total borrowing zero, impact pool empty
#[kani::proof]
#[kani::unwind(1)]
fn c06_pool_value_capped_pnl_u8() {
    let mut m = base_market_u8();
    m.primary = sym::pool();
    m.oi_long = sym::pool();
    m.oi_short = sym::pool();
    m.oit_long = sym::pool();
    m.oit_short = sym::pool();
    m.pnl_deposit_long = kani::any();
    m.pnl_deposit_short = kani::any();
    m.pnl_withdrawal_long = kani::any();
    m.pnl_withdrawal_short = kani::any();
    let p = prices(sym::price_u8(), sym::price_u8(), sym::price_u8());
    let kind_is_deposit: bool = kani::any();
    let r = check_pool_value_u8(&m, &p, kind_is_deposit, kani::any());
    kani::cover!(r.is_some() && m.oit_long.long as u16 * p.index_token_price.min as u16 > m.oi_long.long as u16 + m.oi_long.short as u16 && m.pnl_deposit_long < 10 && kind_is_deposit, "positive long pnl, deposit factor below 100 %");
    kani::cover!(r.is_some() && (m.oi_short.long as u16 + m.oi_short.short as u16) > (m.oit_short.long as u16 + m.oit_short.short as u16) * p.index_token_price.max as u16 && !kind_is_deposit, "positive short pnl, withdrawal kind");
    kani::cover!(matches!(r, Some(v) if v < 0), "negative pool value");
}

//@ prop=C06 tier=quick kind=hold
//@ enc=LiquidityMarketExt::pool_value, BorrowingFeeMarketExt::total_pending_borrowing_fees, BorrowingFeeMarketExt::next_cumulative_borrowing_factor, BorrowingFeeMarketExt::borrowing_factor_per_second, BorrowingFeeParams::receiver_factor, utils::apply_factor
//@ bound=T=u8 DECIMALS=1: liquidity pool, open interest (usd) pools, cumulative borrowing factors, total borrowing, borrowing receiver factor, long/short token prices, maximize on/off symbolic; borrowing clock reads 0 s; no open interest in tokens (pnl = -open interest for longs, +open interest for shorts, capped), impact pool empty, kink model off
#[kani::proof]
#[kani::unwind(1)]
fn c06_pool_value_borrowing_fees_u8() {
    let mut m = base_market_u8();
    m.primary = sym::pool();
    m.oi_long = sym::pool();
    m.oi_short = sym::pool();
    m.borrowing_factor = sym::pool();
    m.total_borrowing = sym::pool();
    m.b_receiver_factor = kani::any();
    let p = prices((1, 1), sym::price_u8(), sym::price_u8());
    let r = check_pool_value_u8(&m, &p, true, kani::any());
    kani::cover!(r.is_some() && m.total_borrowing.long < m.oi_long.long && m.borrowing_factor.long >= 10 && m.oi_long.long > 0 && m.b_receiver_factor > 0 && m.b_receiver_factor < 10, "pending borrowing fee split between pool and receiver");
    kani::cover!(r.is_none() && m.b_receiver_factor > 10, "receiver factor above 100 % rejected");
}

// ------------------------------------------------------------------------------------------------
// Whole actions: Deposit::execute / Withdrawal::execute
// ------------------------------------------------------------------------------------------------

pub struct DepositOut {
    pub minted: u8,
    pub fee_long: (u8, u8),  // (receiver, pool)
    pub fee_short: (u8, u8), // (receiver, pool)
    pub impact: i8,
}

/// Runs the real `Deposit::try_new(..)?.execute()`.
pub fn run_deposit_u8(m: &mut VMarket<u8, 1>, long: u8, short: u8, p: Prices<u8>) -> Option<DepositOut> {
    let res = match m.deposit(long, short, p) {
        Ok(d) => d.execute(),
        Err(e) => Err(e),
    };
    match res {
        Ok(r) => Some(DepositOut {
            minted: *r.minted(),
            fee_long: (*r.long_token_fees().fee_amount_for_receiver(), *r.long_token_fees().fee_amount_for_pool()),
            fee_short: (*r.short_token_fees().fee_amount_for_receiver(), *r.short_token_fees().fee_amount_for_pool()),
            impact: *r.price_impact(),
        }),
        Err(e) => {
            std::mem::forget(e);
            None
        }
    }
}

pub struct WithdrawOut {
    pub long_out: u8,
    pub short_out: u8,
    pub fee_long: (u8, u8),
    pub fee_short: (u8, u8),
}

/// Runs the real `Withdrawal::try_new(..)?.execute()`.
pub fn run_withdraw_u8(m: &mut VMarket<u8, 1>, amount: u8, p: Prices<u8>) -> Option<WithdrawOut> {
    let res = match m.withdraw(amount, p) {
        Ok(w) => w.execute(),
        Err(e) => Err(e),
    };
    match res {
        Ok(r) => Some(WithdrawOut {
            long_out: *r.long_token_output(),
            short_out: *r.short_token_output(),
            fee_long: (*r.long_token_fees().fee_amount_for_receiver(), *r.long_token_fees().fee_amount_for_pool()),
            fee_short: (*r.short_token_fees().fee_amount_for_receiver(), *r.short_token_fees().fee_amount_for_pool()),
        }),
        Err(e) => {
            std::mem::forget(e);
            None
        }
    }
}

/// Benign limits / parameters for an empty market: nothing symbolic.
pub fn base_market_u8() -> VMarket<u8, 1> {
    let mut m: VMarket<u8, 1> = VMarket::default();
    m.usd_to_amount_divisor = 1;
    m.swap_impact_exponent = 10;
    m.max_pool_amount_long = 255;
    m.max_pool_amount_short = 255;
    m.max_pool_value_for_deposit_long = 255;
    m.max_pool_value_for_deposit_short = 255;
    m.pnl_deposit_long = 10;
    m.pnl_deposit_short = 10;
    m.pnl_withdrawal_long = 10;
    m.pnl_withdrawal_short = 10;
    m.pnl_trader = 10;
    m.pnl_adl = 10;
    m.reserve_factor = 10;
    m.oi_reserve_factor = 10;
    m.max_oi_long = 255;
    m.max_oi_short = 255;
    m.pi_exponent = 10;
    m.b_exponent_long = 10;
    m.b_exponent_short = 10;
    m
}

//@ prop=C06 tier=thorough kind=hold
//@ enc=Deposit::try_new, Deposit::execute, Deposit::price_impact, Deposit::execute_deposit, Deposit::charge_fees, LiquidityMarketExt::pool_value, LiquidityMarketExt::validate_pool_value_for_deposit, BaseMarketExt::validate_max_pnl, BaseMarketExt::validate_pool_amount, BaseMarketMutExt::apply_delta, SwapMarketExt::swap_impact_value, utils::usd_to_market_token_amount, FeeParams::apply_fees, LiquidityMarketMut::mint (VMarket)
//@ bound=T=u8 DECIMALS=1 (UNIT 10): first deposit into an EMPTY market (every pool zero, supply zero): both deposit amounts, all six prices (0<min<=max, min+max<=255), the usd-to-amount divisor, every swap fee / receiver / discount factor, the pool amount and pool value limits symbolic; swap impact factors zero
//@ timeout=5400 mem=36
#[kani::proof]
#[kani::unwind(1)]
fn c06_first_deposit_whole_u8() {
    let mut m = base_market_u8();
    m.usd_to_amount_divisor = kani::any();
    m.swap_fee_positive = kani::any();
    m.swap_fee_negative = kani::any();
    m.swap_fee_receiver = kani::any();
    m.swap_fee_has_discount = kani::any();
    m.swap_fee_discount = kani::any();
    m.max_pool_amount_long = kani::any();
    m.max_pool_amount_short = kani::any();
    m.max_pool_value_for_deposit_long = kani::any();
    m.max_pool_value_for_deposit_short = kani::any();
    let pre = m;
    let (long, short): (u8, u8) = (kani::any(), kani::any());
    let p = prices(sym::price_u8(), sym::price_u8(), sym::price_u8());
    let Some(d) = run_deposit_u8(&mut m, long, short, p) else { return };
    let div = pre.usd_to_amount_divisor as i32;
    assert!(div != 0, "C06: deposit succeeded with a zero divisor");
    // amounts that reach the pool per side
    let net_long = long as i32 - d.fee_long.0 as i32 - d.fee_long.1 as i32;
    let net_short = short as i32 - d.fee_short.0 as i32 - d.fee_short.1 as i32;
    assert!(net_long >= 0 && net_short >= 0);
    assert!(d.impact == 0, "C06: zero impact factors but non-zero impact");
    // one market token per `divisor` of USD value at the minimum price, per deposited side, rounded down
    let want = (net_long * p.long_token_price.min as i32) / div + (net_short * p.short_token_price.min as i32) / div;
    assert!(d.minted as i32 == want, "C06: first deposit into an empty pool is not priced at one USD (divisor) per market token");
    assert!(m.total_supply == d.minted, "C06: supply after the first deposit != minted");
    // token bookkeeping of the deposit leg
    assert!(m.primary.long as i32 == long as i32 - d.fee_long.0 as i32 && m.primary.short as i32 == short as i32 - d.fee_short.0 as i32, "C06: liquidity pool after first deposit");
    assert!(m.fee.long == d.fee_long.0 && m.fee.short == d.fee_short.0, "C06: claimable fees after first deposit");
    assert!(m.swap_impact.same(&pre.swap_impact) & m.same_other_pools(&{ let mut x = pre; x.total_supply = m.total_supply; x }) & m.same_params(&pre), "C06: first deposit touched an unrelated pool or parameter");
    kani::cover!(d.minted > 1 && long > 0 && short > 0, "two-sided first deposit");
    kani::cover!(d.minted > 0 && d.fee_long.0 > 0, "first deposit with fees");
    kani::cover!(d.minted > 0 && div > 1, "first deposit with divisor above one");
}

/// Deposit, then immediately withdraw all minted market tokens at the same prices.
/// Returns `(deposited value at min prices, withdrawn value at max prices, funded positive impact value)`.
pub fn round_trip_u8(m: &mut VMarket<u8, 1>, long: u8, short: u8, p: Prices<u8>) -> Option<(i32, i32, i32)> {
    let m0 = *m;
    let d = run_deposit_u8(m, long, short, p)?;
    let m1 = *m;
    if d.minted == 0 {
        return None;
    }
    let w = run_withdraw_u8(m, d.minted, p)?;
    let v_in = long as i32 * p.long_token_price.min as i32 + short as i32 * p.short_token_price.min as i32;
    let v_out = w.long_out as i32 * p.long_token_price.max as i32 + w.short_out as i32 * p.short_token_price.max as i32;
    // positive impact paid to the depositor out of the swap impact pool, at the price the code uses
    let dl = m0.swap_impact.long as i32 - m1.swap_impact.long as i32;
    let ds = m0.swap_impact.short as i32 - m1.swap_impact.short as i32;
    let funded = (if dl > 0 { dl } else { 0 }) * p.long_token_price.max as i32 + (if ds > 0 { ds } else { 0 }) * p.short_token_price.max as i32;

    // token bookkeeping of both legs (exact): what left the market is what the reports say
    assert!(m.total_supply == m0.total_supply, "C06: supply after the round trip differs from the supply before");
    let hold = |x: &VMarket<u8, 1>, long_side: bool| -> i32 {
        if long_side {
            x.primary.long as i32 + x.swap_impact.long as i32 + x.fee.long as i32
        } else {
            x.primary.short as i32 + x.swap_impact.short as i32 + x.fee.short as i32
        }
    };
    assert!(hold(&m1, true) == hold(&m0, true) + long as i32 && hold(&m1, false) == hold(&m0, false) + short as i32, "C06: deposit leg: holdings did not grow by exactly the deposited amounts");
    assert!(hold(m, true) + w.long_out as i32 == hold(&m1, true) && hold(m, false) + w.short_out as i32 == hold(&m1, false), "C06: withdraw leg: holdings did not shrink by exactly the paid amounts");
    Some((v_in, v_out, funded))
}

fn round_trip_market_u8() -> VMarket<u8, 1> {
    let mut m = base_market_u8();
    m.primary = sym::pool();
    m.swap_impact = sym::pool();
    m.total_supply = kani::any();
    m.swap_fee_positive = kani::any();
    m.swap_fee_negative = kani::any();
    m.swap_fee_receiver = kani::any();
    m.swap_impact_positive = kani::any();
    m.swap_impact_negative = kani::any();
    // by design the first depositor into a market without supply owns whatever is in the pool
    // (e.g. the pool share of earlier withdrawal fees): excluded, see the report
    kani::assume(m.total_supply > 0 || (m.primary.long == 0 && m.primary.short == 0));
    m
}

fn round_trip_check(m: &mut VMarket<u8, 1>, long: u8, short: u8) {
    let p = prices(sym::price_u8(), sym::price_u8(), sym::price_u8());
    let r = round_trip_u8(m, long, short, p);
    if let Some((v_in, v_out, funded)) = r {
        assert!(v_out <= v_in + funded, "C06: deposit then withdraw-all returns more USD value (at max prices) than was deposited (at min prices) plus the positive impact funded by the impact pool");
        kani::cover!(v_out > 0 && v_out < v_in, "lossy round trip");
        kani::cover!(funded > 0, "round trip with funded positive impact");
    }
    kani::cover!(r.is_some(), "round trip completed");
}

//@ prop=C06 tier=experimental kind=hold
//@ enc=Deposit::execute, Withdrawal::execute, Withdrawal::output_amounts, LiquidityMarketExt::pool_value, utils::usd_to_market_token_amount, utils::market_token_amount_to_usd, FeeParams::apply_fees, SwapMarketExt::swap_impact_value, SwapMarketMutExt::apply_swap_impact_value_with_cap, BaseMarketMutExt::apply_delta, BaseMarketExt::validate_reserve, BaseMarketExt::validate_max_pnl, LiquidityMarketMut::{mint, burn} (VMarket)
//@ bound=T=u8 DECIMALS=1 (UNIT 10): LONG-token deposit then withdraw-all: liquidity pool, swap impact pool, supply (supply > 0 or liquidity empty), deposit amount, all six prices, swap fee / receiver factors, swap impact factors (exponent 1.0) symbolic; no open interest, clocks read 0 s, limits at their maximum -- CBMC ran out of memory in this environment (12-17 GB resident when the shared machine had no more to give); never selected. The per-leg harnesses below decide the same clause compositionally.
//@ timeout=5400 mem=48
#[kani::proof]
#[kani::unwind(1)]
fn c06_round_trip_long_deposit_whole_u8() {
    let mut m = round_trip_market_u8();
    round_trip_check(&mut m, kani::any(), 0);
}

//@ prop=C06 tier=experimental kind=hold
//@ enc=Deposit::execute, Withdrawal::execute, Withdrawal::output_amounts, LiquidityMarketExt::pool_value, utils::usd_to_market_token_amount, utils::market_token_amount_to_usd, FeeParams::apply_fees, SwapMarketExt::swap_impact_value, SwapMarketMutExt::apply_swap_impact_value_with_cap, BaseMarketMutExt::apply_delta, BaseMarketExt::validate_reserve, BaseMarketExt::validate_max_pnl, LiquidityMarketMut::{mint, burn} (VMarket)
//@ bound=T=u8 DECIMALS=1 (UNIT 10): SHORT-token deposit then withdraw-all: same symbolic state as the long-token harness -- not run to completion (see the long-token harness); never selected
//@ timeout=5400 mem=48
#[kani::proof]
#[kani::unwind(1)]
fn c06_round_trip_short_deposit_whole_u8() {
    let mut m = round_trip_market_u8();
    round_trip_check(&mut m, 0, kani::any());
}

//@ prop=C06 tier=experimental kind=hold
//@ enc=Deposit::execute, Withdrawal::execute (two-sided deposit)
//@ bound=T=u8: two-sided deposit then withdraw-all, same state -- CBMC ran out of memory (> 17 GB resident under a 40 GB address-space cap) after 26 min; never selected
#[kani::proof]
#[kani::unwind(1)]
fn c06_round_trip_two_sided_whole_u8() {
    let mut m = round_trip_market_u8();
    round_trip_check(&mut m, kani::any(), kani::any());
}

// ------------------------------------------------------------------------------------------------
// Per-leg obligations
//
// In a market without open interest, borrowing state and position-impact pool the pool value is
// `L * pL + S * pS` at the maximised / minimised prices (that `pool_value` is this composition is
// what the `c06_pool_value_*` harnesses decide), so the legs are stated with that closed form.
//
// Each leg harness compares the real action with an EXACT replica of the amounts (same division
// structure, which the SAT solver can match; a bare inequality over five nested divisions did not
// finish in 90 min) and with exact token bookkeeping. The property clauses follow arithmetically:
//
//   deposit leg:  minted = floor(S0*x/PV0) + floor(S0*y/PV0), x = net amount * min price,
//                 y = positive impact amount * max price of the other token (paid out of its impact pool)
//        D1  =>   minted * PV0max <= S0 * (x + y) <= S0 * (deposited value at min prices + funded impact)
//                 i.e. (PV0 + added value) / (S0 + minted) >= PV0 / S0: no dilution of the other LPs
//        D2       PVmin(after) <= PV0max + deposited value + funded impact  (bookkeeping, prices min <= max)
//   withdraw leg: gross_long = floor(floor(mtv*LV/TV)/pLmax), gross_short likewise, mtv = floor(PV1min*a/S1)
//        W1  =>   (gross_long*pLmax + gross_short*pSmax) <= mtv <= PV1min * a / S1: the burned share, never more
//
// D1 + D2 + W1 and the conversion lemma (`c06_conversion_round_trip_*`) give: withdrawn value at max
// prices <= deposited value at min prices + impact funded by the impact pool.
// ------------------------------------------------------------------------------------------------

fn pv_closed(m: &VMarket<u8, 1>, p: &Prices<u8>, maximize: bool) -> i32 {
    let (pl, ps) = if maximize {
        (p.long_token_price.max, p.short_token_price.max)
    } else {
        (p.long_token_price.min, p.short_token_price.min)
    };
    m.primary.long as i32 * pl as i32 + m.primary.short as i32 * ps as i32
}

/// floor(x*n/d) computed like the narrow `MulDiv` instantiation (16-bit product, 16-bit division).
fn md(x: u8, n: u8, d: u8) -> u16 {
    x as u16 * n as u16 / d as u16
}

/// Replica of `usd_to_market_token_amount` for representable inputs (`None` = not applicable).
fn conv(usd: i32, pool: i32, supply: u8, divisor: u8) -> Option<i32> {
    if usd > 255 || pool > 255 || usd < 0 || pool < 0 || divisor == 0 {
        return None;
    }
    if supply == 0 && pool == 0 {
        Some((usd as u8 / divisor) as i32)
    } else if supply == 0 {
        if pool + usd > 255 {
            None
        } else {
            Some(((pool + usd) as u8 / divisor) as i32)
        }
    } else if pool == 0 {
        None
    } else {
        Some(md(supply, usd as u8, pool as u8) as i32)
    }
}

fn deposit_leg(long_side: bool, with_impact: bool) {
    let mut m = round_trip_market_u8();
    if !with_impact {
        // concrete zero factors: the impact value is the constant 0 and the impact branches are skipped
        m.swap_impact_positive = 0;
        m.swap_impact_negative = 0;
    }
    m.usd_to_amount_divisor = kani::any();
    let m0 = m;
    let a: u8 = kani::any();
    let p = prices(sym::price_u8(), sym::price_u8(), sym::price_u8());
    let (long, short) = if long_side { (a, 0) } else { (0, a) };
    let Some(d) = run_deposit_u8(&mut m, long, short, p) else {
        kani::cover!(true, "deposit rejected");
        return;
    };
    let (pin, pop) = if long_side { (p.long_token_price, p.short_token_price) } else { (p.short_token_price, p.long_token_price) };
    let fees = if long_side { d.fee_long } else { d.fee_short };
    let side = |x: &crate::vmarket::VPool<u8>, l: bool| -> i32 { if l { x.long as i32 } else { x.short as i32 } };
    // impact pools: positive impact is paid out of the OTHER token's pool, negative impact into the deposited token's pool
    let pia = side(&m0.swap_impact, !long_side) - side(&m.swap_impact, !long_side);
    let neg = side(&m.swap_impact, long_side) - side(&m0.swap_impact, long_side);
    assert!(pia >= 0 && neg >= 0 && (pia == 0 || neg == 0), "C06: deposit: impact pools moved in the wrong direction");
    assert!((d.impact > 0) || pia == 0, "C06: deposit: impact pool paid out without positive impact");
    assert!((d.impact < 0) || neg == 0, "C06: deposit: impact pool charged without negative impact");
    // bookkeeping, exact
    let net = a as i32 - fees.0 as i32 - fees.1 as i32 - neg;
    assert!(net >= 0);
    assert!(side(&m.primary, long_side) == side(&m0.primary, long_side) + net + fees.1 as i32, "C06: deposit: liquidity pool (deposited token) != + net amount + pool fee");
    assert!(side(&m.primary, !long_side) == side(&m0.primary, !long_side) + pia, "C06: deposit: liquidity pool (other token) != + positive impact amount");
    assert!(side(&m.fee, long_side) == side(&m0.fee, long_side) + fees.0 as i32 && side(&m.fee, !long_side) == side(&m0.fee, !long_side), "C06: deposit: claimable fee booking");
    assert!(m.total_supply as i32 == m0.total_supply as i32 + d.minted as i32, "C06: deposit: supply did not grow by the minted amount");
    assert!(m.same_other_pools(&{ let mut x = m0; x.total_supply = m.total_supply; x }) & m.same_params(&m0), "C06: deposit touched an unrelated pool or parameter");
    // minted amount, exact: input valued at the MIN price, pool valued MAXimised, each part rounded down
    let pv0 = pv_closed(&m0, &p, true);
    let (s0, div) = (m0.total_supply, m0.usd_to_amount_divisor);
    let want_in = conv(net * pin.min as i32, pv0, s0, div);
    let want_pos = if d.impact > 0 && s0 != 0 { conv(pia * pop.max as i32, pv0, s0, div) } else { Some(0) };
    assert!(want_in.is_some() && want_pos.is_some(), "C06: deposit succeeded although the mint amount is not computable");
    assert!(d.minted as i32 == want_in.unwrap() + want_pos.unwrap(), "C06: minted != floor(supply * net value at min price / maximised pool value) + floor(supply * positive impact value / maximised pool value) (first deposit: floor(value / divisor))");
    if s0 == 0 {
        assert!(pia == 0, "C06: positive impact paid on a first deposit");
    }
    kani::cover!(s0 > 0 && d.minted > 1 && fees.0 > 0, "deposit with fees into a live pool");
    if with_impact {
        kani::cover!(s0 > 0 && d.minted > 0 && pia > 0, "deposit with funded positive impact");
        kani::cover!(s0 > 0 && d.minted > 0 && neg > 0, "deposit with negative impact");
    }
    kani::cover!(s0 == 0 && d.minted > 0, "first deposit");
}

//@ prop=C06 tier=thorough kind=hold
//@ enc=Deposit::try_new, Deposit::execute, Deposit::price_impact, Deposit::execute_deposit, Deposit::charge_fees, LiquidityMarketExt::pool_value, LiquidityMarketExt::validate_pool_value_for_deposit, BaseMarketExt::validate_max_pnl, BaseMarketExt::validate_pool_amount, BaseMarketMutExt::apply_delta, SwapMarketExt::swap_impact_value, SwapMarketMutExt::apply_swap_impact_value_with_cap, utils::usd_to_market_token_amount, FeeParams::apply_fees
//@ bound=T=u8 DECIMALS=1 (UNIT 10): one LONG-token Deposit::execute: liquidity pool, swap impact pool, supply (supply > 0 or liquidity empty), divisor, amount, all six prices, swap fee / receiver factors, swap impact factors (exponent 1.0) symbolic; no open interest, no borrowing state, no position impact pool, limits at their maximum
//@ timeout=7200 mem=58
#[kani::proof]
#[kani::unwind(1)]
fn c06_deposit_leg_long_whole_u8() {
    deposit_leg(true, true);
}

//@ prop=C06 tier=experimental kind=hold
//@ enc=Deposit::try_new, Deposit::execute, Deposit::price_impact, Deposit::execute_deposit, Deposit::charge_fees, LiquidityMarketExt::pool_value, LiquidityMarketExt::validate_pool_value_for_deposit, BaseMarketExt::validate_max_pnl, BaseMarketExt::validate_pool_amount, BaseMarketMutExt::apply_delta, utils::usd_to_market_token_amount, FeeParams::apply_fees
//@ bound=T=u8 DECIMALS=1 (UNIT 10): one LONG-token Deposit::execute with swap impact factors ZERO (cheaper companion of the harness above; NOT run to completion -- stopped at 44 min / 15.7 GB to free the shared machine -- hence experimental): liquidity pool, swap impact pool, supply (supply > 0 or liquidity empty), divisor, amount, all six prices, swap fee / receiver factors symbolic; no open interest, no borrowing state, no position impact pool
//@ timeout=5400 mem=40
#[kani::proof]
#[kani::unwind(1)]
fn c06_deposit_leg_long_no_impact_whole_u8() {
    deposit_leg(true, false);
}

//@ prop=C06 tier=experimental kind=hold
//@ enc=Deposit::try_new, Deposit::execute, Deposit::price_impact, Deposit::execute_deposit, Deposit::charge_fees, LiquidityMarketExt::pool_value, LiquidityMarketExt::validate_pool_value_for_deposit, BaseMarketExt::validate_max_pnl, BaseMarketExt::validate_pool_amount, BaseMarketMutExt::apply_delta, SwapMarketExt::swap_impact_value, SwapMarketMutExt::apply_swap_impact_value_with_cap, utils::usd_to_market_token_amount, FeeParams::apply_fees
//@ bound=T=u8 DECIMALS=1 (UNIT 10): one SHORT-token Deposit::execute, same symbolic state as the long-token harness -- its only run was killed by memory exhaustion of the shared machine at 21.9 GB resident after 52 min (the long-token twin passes in 81 min / 21.9 GB); experimental until it has passed once
//@ timeout=7200 mem=58
#[kani::proof]
#[kani::unwind(1)]
fn c06_deposit_leg_short_whole_u8() {
    deposit_leg(false, true);
}

//@ prop=C06 tier=thorough kind=hold
//@ enc=Withdrawal::try_new, Withdrawal::execute, Withdrawal::output_amounts, Withdrawal::charge_fees, LiquidityMarketExt::pool_value, utils::market_token_amount_to_usd, FeeParams::apply_fees, BaseMarketMutExt::apply_delta, BaseMarketExt::validate_reserve, BaseMarketExt::validate_max_pnl, LiquidityMarketMut::burn (VMarket)
//@ bound=T=u8 DECIMALS=1 (UNIT 10): one Withdrawal::execute: liquidity pool, claimable fee pool, supply, burned amount, all six prices, swap fee / receiver factors symbolic; no open interest, no borrowing state, no position impact pool
//@ timeout=5400 mem=36
#[kani::proof]
#[kani::unwind(1)]
fn c06_withdraw_leg_whole_u8() {
    let mut m = base_market_u8();
    m.primary = sym::pool();
    m.fee = sym::pool();
    m.total_supply = kani::any();
    m.swap_fee_positive = kani::any();
    m.swap_fee_negative = kani::any();
    m.swap_fee_receiver = kani::any();
    let m1 = m;
    let a: u8 = kani::any();
    let p = prices(sym::price_u8(), sym::price_u8(), sym::price_u8());
    let Some(w) = run_withdraw_u8(&mut m, a, p) else {
        kani::cover!(true, "withdrawal rejected");
        return;
    };
    let (plx, psx) = (p.long_token_price.max, p.short_token_price.max);
    // bookkeeping, exact: what leaves the liquidity pool is output + receiver fee; the pool share of the fee stays
    assert!(m.primary.long as i32 + w.long_out as i32 + w.fee_long.0 as i32 == m1.primary.long as i32, "C06: withdraw: liquidity pool (long) delta");
    assert!(m.primary.short as i32 + w.short_out as i32 + w.fee_short.0 as i32 == m1.primary.short as i32, "C06: withdraw: liquidity pool (short) delta");
    assert!(m.fee.long as i32 == m1.fee.long as i32 + w.fee_long.0 as i32 && m.fee.short as i32 == m1.fee.short as i32 + w.fee_short.0 as i32, "C06: withdraw: claimable fee booking");
    assert!(m.total_supply as i32 + a as i32 == m1.total_supply as i32, "C06: withdraw: supply did not shrink by the burned amount");
    assert!(m.swap_impact.same(&m1.swap_impact) & m.same_other_pools(&{ let mut x = m1; x.total_supply = m.total_supply; x }) & m.same_params(&m1), "C06: withdrawal touched an unrelated pool or parameter");
    // amounts before fees, exact: pool valued MINimised, split by the liquidity values at MAX prices, paid at MAX prices, every step rounded down
    let pv1 = pv_closed(&m1, &p, false);
    assert!(pv1 > 0 && pv1 <= 127 && m1.total_supply > 0, "C06: withdrawal succeeded with an empty / unrepresentable pool value or without supply");
    let mtv = md(pv1 as u8, a, m1.total_supply);
    let (lv, sv) = (m1.primary.long as u16 * plx as u16, m1.primary.short as u16 * psx as u16);
    assert!(mtv <= 255 && lv + sv <= 255 && lv + sv > 0);
    let gross_long = md(mtv as u8, lv as u8, (lv + sv) as u8) as u8 / plx;
    let gross_short = md(mtv as u8, sv as u8, (lv + sv) as u8) as u8 / psx;
    assert!(w.long_out as i32 + w.fee_long.0 as i32 + w.fee_long.1 as i32 == gross_long as i32, "C06: long output + fees != floor(floor(mtv * long_value / total_value) / max long price)");
    assert!(w.short_out as i32 + w.fee_short.0 as i32 + w.fee_short.1 as i32 == gross_short as i32, "C06: short output + fees != floor(floor(mtv * short_value / total_value) / max short price)");
    kani::cover!(w.long_out > 0 && w.short_out > 0 && w.fee_long.0 > 0, "two-token withdrawal with fees");
    kani::cover!(m.total_supply == 0 && w.long_out > 0, "withdraw everything");
}
