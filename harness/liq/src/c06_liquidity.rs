//! C06 (deposit / withdraw round trip) on the real `utils::{usd_to_market_token_amount,
//! market_token_amount_to_usd}`, `LiquidityMarketExt::{pool_value, market_token_value}`,
//! `Deposit::execute`, `Withdrawal::execute`, instantiated at `u8` (UNIT 10) / `u16` (UNIT 100).

use gmsol_model::{
    fixed::FixedPointOps,
    num::{MulDiv, Num, Unsigned, UnsignedAbs},
    price::{Price, Prices},
    utils::{market_token_amount_to_usd, usd_to_market_token_amount},
    BaseMarket, LiquidityMarketExt, LiquidityMarketMutExt, MarketAction, PnlFactorKind,
};
use num_traits::CheckedSub;

use crate::{
    vmarket::{prices, sym, VMarket, VPool},
    wide::{cdiv, fdiv, Wide, W},
};

// ------------------------------------------------------------------------------------------------
// Component: usd <-> market token conversions (crates/model/src/utils.rs)
// ------------------------------------------------------------------------------------------------

/// `usd_to_market_token_amount` against its exact specification, stated with multiplications only
/// (`q == floor(n/d)  <=>  q*d <= n < (q+1)*d`), which is what the SAT solver digests best.
fn check_usd_to_amount<T, O>(usd: T, pool: T, supply: T, divisor: T)
where
    O: Wide,
    T: MulDiv + Num + W<O = O> + Copy,
{
    let z = O::zero();
    let one = O::one();
    let umax = T::max_value_w();
    let (u, p, s, d) = (usd.w(), pool.w(), supply.w(), divisor.w());
    let is_floor = |q: O, n: O, den: O| -> bool { q * den <= n && (q + one) * den > n };
    match usd_to_market_token_amount(usd, pool, supply, divisor) {
        Some(a) => {
            let a = a.w();
            assert!(d != z, "C06: zero divisor accepted");
            if s == z && p == z {
                // first deposit into an empty pool: one market token per `divisor` of USD value
                assert!(is_floor(a, u, d), "C06: first deposit not priced at one USD (divisor) per market token, rounded down");
            } else if s == z {
                assert!(is_floor(a, p + u, d), "C06: zero-supply mint != floor((pool+usd)/divisor)");
            } else {
                assert!(p != z, "C06: mint against an empty pool with non-zero supply");
                // rounded down: minted * pool <= supply * usd < (minted + 1) * pool
                assert!(is_floor(a, s * u, p), "C06: minted market tokens != floor(supply*usd/pool)");
            }
            kani::cover!(s > z && p > z && (s * u) % p != z, "mint with remainder");
            kani::cover!(s == z && p == z && a > z, "first deposit");
            kani::cover!(s == z && p > z, "zero supply, non-empty pool");
        }
        None => {
            // fails only for a zero divisor, an empty pool with supply, or an unrepresentable result
            let legit = d == z
                || (s == z && p != z && p + u > umax)
                || (s != z && p == z)
                || (s != z && p != z && s * u >= (umax + one) * p);
            assert!(legit, "C06: usd_to_market_token_amount failed where the specification succeeds");
        }
    }
}

fn check_amount_to_usd<T, O>(amount: T, pool: T, supply: T)
where
    O: Wide,
    T: MulDiv + Num + W<O = O> + Copy,
{
    let z = O::zero();
    match market_token_amount_to_usd(&amount, &pool, &supply) {
        Some(v) => {
            assert!(supply.w() > z, "C06: market_token_amount_to_usd succeeded with zero supply");
            assert!(
                v.w() * supply.w() <= pool.w() * amount.w() && (v.w() + O::one()) * supply.w() > pool.w() * amount.w(),
                "C06: market_token_amount_to_usd != floor(pool*amount/supply)"
            );
            kani::cover!(v.w() * supply.w() != pool.w() * amount.w(), "redeem with remainder");
        }
        None => {
            assert!(
                supply.w() == z || pool.w() * amount.w() >= (T::max_value_w() + O::one()) * supply.w(),
                "C06: market_token_amount_to_usd failed although representable"
            );
        }
    }
}

//@ prop=C06 tier=quick kind=hold
//@ enc=utils::usd_to_market_token_amount, utils::market_token_amount_to_usd, MulDiv::checked_mul_div (narrow impl)
//@ bound=T=u8: every usd value, pool value, supply, divisor (incl. zero) and market token amount
#[kani::proof]
fn c06_conversions_u8() {
    check_usd_to_amount::<u8, i32>(kani::any(), kani::any(), kani::any(), kani::any());
    check_amount_to_usd::<u8, i32>(kani::any(), kani::any(), kani::any());
}

//@ prop=C06 tier=quick kind=hold
//@ enc=utils::usd_to_market_token_amount, utils::market_token_amount_to_usd, MulDiv::checked_mul_div (narrow impl)
//@ bound=T=u16: every usd value, pool value, supply, divisor (incl. zero) and market token amount
#[kani::proof]
fn c06_conversions_u16() {
    check_usd_to_amount::<u16, i64>(kani::any(), kani::any(), kani::any(), kani::any());
    check_amount_to_usd::<u16, i64>(kani::any(), kani::any(), kani::any());
}

/// Conversion-level round trip: value `v` is converted to market tokens against (pool value `p`,
/// supply `s`), the pool grows by at most `v` (fees and negative impact only make it smaller...
/// here: exactly by `dv <= v`), and the minted tokens are redeemed against the new pool and supply.
/// The redeemed value never exceeds `v`, and the value per token of the old supply does not drop.
pub fn check_conversion_round_trip<T, O>(v: T, p: T, s: T)
where
    O: Wide,
    T: MulDiv + Num + W<O = O> + Copy + CheckedSub,
{
    let z = O::zero();
    kani::assume(s.w() > z && p.w() > z);
    let Some(minted) = usd_to_market_token_amount(v, p, s, T::one()) else { return };
    let (Some(p2), Some(s2)) = (p.checked_add(&v), s.checked_add(&minted)) else { return };
    let Some(back) = market_token_amount_to_usd(&minted, &p2, &s2) else { return };
    assert!(back.w() <= v.w(), "C06: conversion round trip returns more value than deposited");
    // other LPs: (p2 - back) / (s2 - minted) >= p / s, cross-multiplied (exact)
    assert!((p2.w() - back.w()) * s.w() >= p.w() * (s2.w() - minted.w()), "C06: value per market token of the remaining supply dropped");
    // mint leg alone: p2 / s2 >= p / s
    assert!(p2.w() * s.w() >= p.w() * s2.w(), "C06: mint lowered the value per market token");
    kani::cover!(minted.w() > z && back.w() > z && back.w() < v.w(), "lossy round trip");
    kani::cover!(minted.w() > z && back.w() == v.w(), "exact round trip");
}

//@ prop=C06 tier=quick kind=hold
//@ enc=utils::usd_to_market_token_amount, utils::market_token_amount_to_usd
//@ bound=T=u8: every deposited value, pool value > 0, supply > 0 (the divisor is not used when supply > 0)
#[kani::proof]
fn c06_conversion_round_trip_u8() {
    check_conversion_round_trip::<u8, i32>(kani::any(), kani::any(), kani::any());
}

//@ prop=C06 tier=quick kind=hold
//@ enc=utils::usd_to_market_token_amount, utils::market_token_amount_to_usd
//@ bound=T=u16: every deposited value, pool value > 0, supply > 0 (the divisor is not used when supply > 0)
#[kani::proof]
fn c06_conversion_round_trip_u16() {
    check_conversion_round_trip::<u16, i64>(kani::any(), kani::any(), kani::any());
}
