//! Widening of the narrow model numbers so that oracles are exact (no wrap, no overflow):
//! `u8/i8 -> i32`, `u16/i16 -> i64`, `u32/i32 -> i64`. The oracle type is as narrow as exactness
//! allows because CBMC bit-blasts every multiplier/divider at its declared width.
//!
//! Headroom: with 8-bit operands a product of three values plus sums stays below 2^26; with
//! 16-bit operands a product of three values stays below 2^48.

use num_traits::{PrimInt, Signed};

pub trait Wide: PrimInt + Signed + core::fmt::Debug {
    fn lit(v: i32) -> Self;
}
impl Wide for i32 {
    #[inline]
    fn lit(v: i32) -> Self {
        v
    }
}
impl Wide for i64 {
    #[inline]
    fn lit(v: i32) -> Self {
        v as i64
    }
}

pub trait W: Copy {
    type O: Wide;
    fn w(self) -> Self::O;
    /// Largest value of the narrow type, widened.
    fn max_value_w() -> Self::O;
}

macro_rules! w {
    ($o:ty: $($t:ty),*) => { $(impl W for $t { type O = $o; #[inline] fn w(self) -> $o { self as $o } #[inline] fn max_value_w() -> $o { <$t>::MAX as $o } })* };
}
w!(i32: u8, i8);
w!(i64: u16, i16, u32, i32);

/// floor(a / b) for a >= 0, b > 0.
#[inline]
pub fn fdiv<O: Wide>(a: O, b: O) -> O {
    a / b
}

/// ceil(a / b) for a >= 0, b > 0.
#[inline]
pub fn cdiv<O: Wide>(a: O, b: O) -> O {
    (a + b - O::one()) / b
}
