//! C04 (swap conservation + atomicity) and C05 (swap value bound) on the real
//! `Swap::{try_new, execute}` / `SwapMarketExt::swap_impact_amount_with_cap` /
//! `BaseMarketExt::{checked_apply_delta, validate_*}` code, instantiated at `u8` (UNIT 10) and
//! `u16` (UNIT 100).

use gmsol_model::{
    fixed::FixedPointOps,
    num::{MulDiv, Num, Unsigned, UnsignedAbs},
    price::{Price, Prices},
    BaseMarket, MarketAction, SwapMarketExt, SwapMarketMutExt, SwapMarketMut,
};
use num_traits::CheckedSub;

use crate::{
    vmarket::{prices, sym, VMarket, VPool},
    wide::{cdiv, fdiv, Wide, W},
};

// ------------------------------------------------------------------------------------------------
// Whole action: oracle shared by all whole-`Swap::execute` harnesses
// ------------------------------------------------------------------------------------------------

pub fn side<T: Copy>(p: &VPool<T>, long: bool) -> T {
    if long {
        p.long
    } else {
        p.short
    }
}

/// Runs the real `Swap::try_new(..)?.execute()` on `*m` and checks the C04 clauses (`c04`) and/or
/// the C05 clauses (`c05`). Returns `Some((out, impact value, impact amount taken from the token-in
/// impact pool))` on success.
pub fn check_swap<T, O, const D: u8>(
    m: &mut VMarket<T, D>,
    is_in_long: bool,
    amount: T,
    p: Prices<T>,
    c04: bool,
    c05: bool,
) -> Option<(T, O, O)>
where
    O: Wide,
    T: FixedPointOps<D> + CheckedSub + W<O = O> + Copy + PartialEq,
    T::Signed: Num + UnsignedAbs<Unsigned = T> + TryFrom<T> + W<O = O> + Copy,
{
    let z = O::zero();
    let pre: VMarket<T, D> = *m;
    let res = match m.swap(is_in_long, amount, p) {
        Ok(swap) => swap.execute(),
        Err(e) => Err(e),
    };
    match res {
        Err(e) => {
            std::mem::forget(e);
            // C04 atomicity: a failed swap leaves every pool (every field) of the market unchanged,
            // and no mutable accessor has even been requested.
            if c04 {
                assert!(m.same(&pre), "C04: failed swap changed the market");
            }
            None
        }
        Ok(report) => {
            let out = *report.token_out_amount();
            let pia = report.price_impact_amount().w();
            let impact = report.price_impact().w();
            let fee_recv = report.token_in_fees().fee_amount_for_receiver().w();
            let fee_pool = report.token_in_fees().fee_amount_for_pool().w();
            let (pin, pout) = if is_in_long {
                (p.long_token_price, p.short_token_price)
            } else {
                (p.short_token_price, p.long_token_price)
            };
            let il = is_in_long;

            // ---- C04: conservation per token -------------------------------------------------
            let sum = |mk: &VMarket<T, D>, long: bool| -> O {
                side(&mk.primary, long).w() + side(&mk.swap_impact, long).w() + side(&mk.fee, long).w()
            };
            let d_imp_in = side(&pre.swap_impact, il).w() - side(&m.swap_impact, il).w();
            let d_imp_out = side(&pre.swap_impact, !il).w() - side(&m.swap_impact, !il).w();
            if c04 {
            assert!(
                sum(&*m, il) == sum(&pre, il) + amount.w(),
                "C04: holdings of token-in did not grow by exactly the input amount"
            );
            assert!(
                sum(&*m, !il) + out.w() == sum(&pre, !il),
                "C04: holdings of token-out did not shrink by exactly the output amount"
            );
            // per pool: which pool moved by what
            assert!(
                side(&m.fee, il).w() == side(&pre.fee, il).w() + fee_recv,
                "C04: claimable fee (token-in) != +receiver fee"
            );
            assert!(
                side(&m.fee, !il) == side(&pre.fee, !il),
                "C04: claimable fee (token-out) changed"
            );
            if impact > z {
                assert!(d_imp_out == pia, "C04: positive impact not taken from the token-out impact pool");
                assert!(d_imp_in >= z, "C04: token-in impact pool grew on positive impact");
                assert!(
                    side(&m.primary, !il).w() + (out.w() - pia) == side(&pre.primary, !il).w(),
                    "C04: liquidity pool (token-out) delta"
                );
                assert!(
                    side(&m.primary, il).w()
                        == side(&pre.primary, il).w() + (amount.w() - fee_recv) + d_imp_in,
                    "C04: liquidity pool (token-in) delta"
                );
            } else {
                assert!(d_imp_in == -pia, "C04: negative impact not added to the token-in impact pool");
                assert!(d_imp_out == z, "C04: token-out impact pool changed on non-positive impact");
                assert!(
                    side(&m.primary, !il).w() + out.w() == side(&pre.primary, !il).w(),
                    "C04: liquidity pool (token-out) delta"
                );
                assert!(
                    side(&m.primary, il).w() == side(&pre.primary, il).w() + amount.w() - fee_recv - pia,
                    "C04: liquidity pool (token-in) delta"
                );
            }
            // virtual inventory follows the liquidity pool; everything else is untouched
            if pre.has_vi_swaps {
                assert!(
                    m.vi_swaps.long.w() - pre.vi_swaps.long.w() == m.primary.long.w() - pre.primary.long.w()
                        && m.vi_swaps.short.w() - pre.vi_swaps.short.w()
                            == m.primary.short.w() - pre.primary.short.w(),
                    "C04: virtual inventory delta differs from the liquidity pool delta"
                );
            }
            if !pre.has_vi_swaps {
                assert!(m.vi_swaps.same(&pre.vi_swaps), "C04: absent virtual inventory written");
            }
            assert!(m.same_other_pools(&pre) & m.same_params(&pre), "C04: a successful swap changed something other than liquidity / swap-impact / claimable-fee / virtual-inventory pools");
            }
            if c05 {
            // ---- C05: value bound -------------------------------------------------------------
            // funded positive impact = what left the swap-impact pools, at the prices the code uses
            let funded = if impact > z {
                d_imp_out * pout.max.w() + d_imp_in * pin.min.w()
            } else {
                z
            };
            assert!(
                out.w() * pout.max.w() <= amount.w() * pin.min.w() + funded,
                "C05: output value at max price exceeds input value at min price plus funded impact"
            );
            // exact form: out = floor(effective_in * p_in.min / p_out.max) (+ impact amount)
            let fee_total = fee_recv + fee_pool;
            assert!(fee_total >= z && fee_total <= amount.w(), "C05: fee exceeds amount");
            let exact = if impact > z {
                fdiv((amount.w() - fee_total + d_imp_in) * pin.min.w(), pout.max.w()) + pia
            } else {
                fdiv((amount.w() - fee_total - pia) * pin.min.w(), pout.max.w())
            };
            assert!(out.w() == exact, "C05: output differs from floor(in_eff * p_in.min / p_out.max) + impact amount");
            if fee_total == z && impact == z {
                assert!(
                    out.w() == fdiv(amount.w() * pin.min.w(), pout.max.w()),
                    "C05: zero fee and zero impact: out != floor(in * p_in.min / p_out.max)"
                );
            }
            }
            Some((out, impact, d_imp_in))
        }
    }
}

pub fn any_prices_u8() -> Prices<u8> {
    prices(sym::price_u8(), sym::price_u8(), sym::price_u8())
}

/// Every field symbolic; the impact exponent is 0 or 1.0 (no `checked_pow` loop iteration: both values
/// are short-cut by `apply_exponent_factor_wrapped`), every other parameter unconstrained.
fn market_u8_all_symbolic_exp01() -> VMarket<u8, 1> {
    let mut m: VMarket<u8, 1> = sym::market_all();
    kani::assume(m.swap_impact_exponent == 0 || m.swap_impact_exponent == 10);
    m
}

fn whole_covers(r: Option<(u8, i32, i32)>) {
    kani::cover!(r.is_none(), "swap failed");
    kani::cover!(matches!(r, Some((o, _, _)) if o > 1), "swap succeeded with a non-trivial output");
    kani::cover!(matches!(r, Some((_, i, _)) if i < 0), "negative impact");
    kani::cover!(matches!(r, Some((_, i, d)) if i > 0 && d == 0), "positive impact paid from the token-out impact pool");
    kani::cover!(matches!(r, Some((_, i, d)) if i > 0 && d > 0), "capped positive impact, remainder paid from the token-in impact pool");
}

//@ prop=C04 tier=thorough kind=hold
//@ enc=Swap::try_new, Swap::execute, Swap::try_execute, Swap::reassign_values, Swap::charge_fees, SwapMarketExt::swap_impact_value, SwapMarketExt::swap_impact_amount_with_cap, PoolDelta::try_new, PoolDelta::price_impact, PriceImpactParams::adjusted_factors, utils::apply_factors, FeeParams::apply_fees, BaseMarketExt::checked_apply_delta, BaseMarketExt::validate_pool_amount, BaseMarketExt::validate_reserve, BaseMarketExt::validate_max_pnl, Price::mid, Prices::validate
//@ bound=T=u8 DECIMALS=1 (UNIT 10); whole Swap::execute end to end: every pool, limit, pnl/reserve factor, open interest, virtual inventory (absent/present), fee / receiver / discount factor, impact factor, side, amount and all six prices symbolic (0<min<=max, min+max<=255); impact exponent in {0, 1.0} (unwind 1: the integer-power loop is never entered, checked by the unwinding assertion)
//@ timeout=5400 mem=36
#[kani::proof]
#[kani::unwind(1)]
fn c04_swap_whole_u8() {
    let mut m = market_u8_all_symbolic_exp01();
    let r = check_swap(&mut m, kani::any(), kani::any(), any_prices_u8(), true, false);
    whole_covers(r);
}

//@ prop=C05 tier=thorough kind=hold
//@ enc=Swap::try_new, Swap::execute, Swap::try_execute, Swap::reassign_values, Swap::charge_fees, SwapMarketExt::swap_impact_value, SwapMarketExt::swap_impact_amount_with_cap, PoolDelta::price_impact, FeeParams::apply_fees, MulDiv::checked_mul_div, Price::pick_price
//@ bound=T=u8 DECIMALS=1 (UNIT 10); whole Swap::execute end to end: every pool, limit, pnl/reserve factor, open interest, virtual inventory (absent/present), fee / receiver / discount factor, impact factor, side, amount and all six prices symbolic (0<min<=max, min+max<=255); impact exponent in {0, 1.0} (unwind 1)
//@ timeout=5400 mem=36
#[kani::proof]
#[kani::unwind(1)]
fn c05_swap_value_bound_whole_u8() {
    let mut m = market_u8_all_symbolic_exp01();
    let r = check_swap(&mut m, kani::any(), kani::any(), any_prices_u8(), false, true);
    whole_covers(r);
    kani::cover!(matches!(r, Some((o, i, _)) if i == 0 && o > 0) && m.swap_fee_negative == 0 && m.swap_fee_positive == 0, "zero fee and zero impact swap");
}

/// Leanest state that still reaches every branch of `Swap::try_execute`: liquidity pool and the
/// swap impact pools of BOTH tokens symbolic, swap impact factors symbolic (exponent 1.0), amount and
/// the long/short token prices symbolic; fees zero, no open interest, no virtual inventory, index
/// price 1, pool-amount limits at their maximum.
fn market_u8_quick() -> VMarket<u8, 1> {
    let mut m: VMarket<u8, 1> = VMarket::default();
    m.usd_to_amount_divisor = 1;
    m.max_pool_amount_long = 255;
    m.max_pool_amount_short = 255;
    m.pnl_deposit_long = 10;
    m.pnl_deposit_short = 10;
    m.pnl_withdrawal_long = 10;
    m.pnl_withdrawal_short = 10;
    m.reserve_factor = 10;
    m.oi_reserve_factor = 10;
    m.max_oi_long = 255;
    m.max_oi_short = 255;
    m.primary = sym::pool();
    m.swap_impact = sym::pool();
    m.swap_impact_exponent = 10;
    m.swap_impact_positive = kani::any();
    m.swap_impact_negative = kani::any();
    m
}

fn whole_quick(is_in_long: bool) {
    let mut m = market_u8_quick();
    let p = prices((1, 1), sym::price_u8(), sym::price_u8());
    let r = check_swap(&mut m, is_in_long, kani::any(), p, true, false);
    kani::cover!(r.is_none(), "swap failed");
    kani::cover!(matches!(r, Some((o, _, _)) if o > 1), "swap succeeded with a non-trivial output");
    kani::cover!(matches!(r, Some((_, i, _)) if i < 0), "negative impact paid into the token-in impact pool");
    kani::cover!(matches!(r, Some((_, i, d)) if i > 0 && d == 0), "positive impact paid from the token-out impact pool");
    kani::cover!(matches!(r, Some((_, i, d)) if i > 0 && d > 0), "positive impact capped by the impact pool, remainder paid from the token-in impact pool");
}

//@ prop=C04 tier=quick kind=hold
//@ enc=Swap::try_new, Swap::execute, Swap::try_execute, Swap::reassign_values, Swap::charge_fees, SwapMarketExt::swap_impact_value, SwapMarketExt::swap_impact_amount_with_cap, PoolDelta::try_new, PoolDelta::price_impact, FeeParams::apply_fees, BaseMarketExt::checked_apply_delta, BaseMarketExt::validate_pool_amount, BaseMarketExt::validate_reserve, BaseMarketExt::validate_max_pnl
//@ bound=T=u8 DECIMALS=1 (UNIT 10); whole Swap::execute with the LONG token in, lean state: liquidity pool, swap impact pools of both tokens, swap impact factors (exponent 1.0), amount, long/short token prices (0<min<=max, min+max<=255) symbolic; fee factors zero, claimable fee pool empty, no open interest, no virtual inventory, index price 1, limits at their maximum. Conservation per token + per-pool deltas on Ok, bit-identical market on Err.
//@ timeout=2700 mem=16
#[kani::proof]
#[kani::unwind(1)]
fn c04_swap_whole_quick_long_in_u8() {
    whole_quick(true);
}

//@ prop=C04 tier=quick kind=hold
//@ enc=Swap::try_new, Swap::execute, Swap::try_execute, Swap::reassign_values, Swap::charge_fees, SwapMarketExt::swap_impact_value, SwapMarketExt::swap_impact_amount_with_cap, PoolDelta::try_new, PoolDelta::price_impact, FeeParams::apply_fees, BaseMarketExt::checked_apply_delta, BaseMarketExt::validate_pool_amount, BaseMarketExt::validate_reserve, BaseMarketExt::validate_max_pnl
//@ bound=T=u8 DECIMALS=1 (UNIT 10); whole Swap::execute with the SHORT token in, same lean state as the long-in harness
//@ timeout=2700 mem=16
#[kani::proof]
#[kani::unwind(1)]
fn c04_swap_whole_quick_short_in_u8() {
    whole_quick(false);
}

//@ prop=C05 tier=quick kind=hold
//@ enc=Swap::try_new, Swap::execute, Swap::try_execute, Swap::reassign_values, SwapMarketExt::swap_impact_value, SwapMarketExt::swap_impact_amount_with_cap, PoolDelta::price_impact, MulDiv::checked_mul_div, Price::pick_price
//@ bound=T=u8 DECIMALS=1 (UNIT 10); whole Swap::execute, lean state as in c04_swap_whole_quick_*: liquidity pool, swap impact pools of both tokens, swap impact factors (exponent 1.0), side, amount, long/short token prices symbolic; fee factors zero, no open interest, no virtual inventory, index price 1. Value bound and exact output formula on Ok (incl. zero-impact case: out == floor(in*p_in.min/p_out.max)).
//@ timeout=2700 mem=16
#[kani::proof]
#[kani::unwind(1)]
fn c05_swap_value_bound_whole_quick_u8() {
    let mut m = market_u8_quick();
    let p = prices((1, 1), sym::price_u8(), sym::price_u8());
    let r = check_swap(&mut m, kani::any(), kani::any(), p, false, true);
    kani::cover!(matches!(r, Some((o, i, _)) if i == 0 && o > 1), "zero impact swap");
    kani::cover!(matches!(r, Some((_, i, _)) if i < 0), "negative impact");
    kani::cover!(matches!(r, Some((_, i, d)) if i > 0 && d > 0), "positive impact capped by the impact pool");
}

/// Lean market for the cheaper whole-swap harnesses: no open interest, no virtual inventory, limits
/// at their maximum; liquidity / swap-impact / claimable-fee pools, swap fee factors and swap impact
/// factors (exponent 1.0) symbolic.
fn market_u8_lean() -> VMarket<u8, 1> {
    let mut m: VMarket<u8, 1> = VMarket::default();
    m.usd_to_amount_divisor = 1;
    m.max_pool_amount_long = kani::any();
    m.max_pool_amount_short = kani::any();
    m.pnl_deposit_long = 10;
    m.pnl_deposit_short = 10;
    m.pnl_withdrawal_long = 10;
    m.pnl_withdrawal_short = 10;
    m.reserve_factor = 10;
    m.oi_reserve_factor = 10;
    m.max_oi_long = 255;
    m.max_oi_short = 255;
    m.primary = sym::pool();
    m.swap_impact = sym::pool();
    m.fee = sym::pool();
    m.swap_impact_exponent = 10;
    m.swap_impact_positive = kani::any();
    m.swap_impact_negative = kani::any();
    m.swap_fee_positive = kani::any();
    m.swap_fee_negative = kani::any();
    m.swap_fee_receiver = kani::any();
    m
}

//@ prop=C04 tier=thorough kind=hold
//@ enc=Swap::try_new, Swap::execute, Swap::try_execute, SwapMarketExt::swap_impact_value, SwapMarketExt::swap_impact_amount_with_cap, PoolDelta::price_impact, FeeParams::apply_fees, BaseMarketExt::checked_apply_delta, BaseMarketExt::validate_pool_amount
//@ bound=T=u8 DECIMALS=1 (UNIT 10); whole Swap::execute, lean state: liquidity / swap-impact / claimable-fee pools, max pool amounts, swap fee + receiver factors, swap impact factors (exponent 1.0), side, amount, all six prices symbolic; no open interest, no virtual inventory. Checks C04 and C05 clauses together (cheaper companion of the all-symbolic harnesses; used for the mutation runs)
//@ timeout=3600 mem=30
#[kani::proof]
#[kani::unwind(1)]
fn c04_swap_whole_lean_u8() {
    let mut m = market_u8_lean();
    let r = check_swap(&mut m, kani::any(), kani::any(), any_prices_u8(), true, true);
    whole_covers(r);
}

// ------------------------------------------------------------------------------------------------
// Component: swap_impact_amount_with_cap
// ------------------------------------------------------------------------------------------------

/// Exact reference of `swap_impact_amount_with_cap` over mathematical integers, including the
/// documented failure conditions of the instantiation (`smax` = max of the signed type,
/// `umax` = max of the unsigned type).
/// Returns `None` for "must fail", `Some((amount, capped_diff_value))` otherwise.
///
/// Quotients are not computed with a division (two different divider circuits are hard to relate
/// for the SAT solver) but named by a fresh witness `q` constrained by `q*d <= n < (q+1)*d`,
/// which determines it uniquely.
fn ref_impact_amount<T, O>(pool_side: O, pmin: O, pmax: O, usd: O, smax: O, umax: O) -> Option<(O, O)>
where
    O: Wide,
    T: W<O = O> + kani::Arbitrary,
{
    let z = O::zero();
    let one = O::one();
    if pmin == z || pmax == z {
        return None;
    }
    if usd > z {
        if pmax > smax {
            return None; // price does not convert to the signed type
        }
        // amount = floor(usd / pmax): the user gets at most the impact value
        let amount = kani::any::<T>().w();
        kani::assume(amount * pmax <= usd && (amount + one) * pmax > usd);
        if pool_side > smax {
            return None; // pool balance does not convert to the signed type
        }
        if amount > pool_side {
            let diff = (amount - pool_side) * pmax;
            if diff > umax {
                return None;
            }
            Some((pool_side, diff))
        } else {
            Some((amount, z))
        }
    } else if usd < z {
        if pmin > smax {
            return None;
        }
        // code: (usd - p + 1) / p, each step checked in the signed type
        if usd - pmin < -(smax + one) {
            return None;
        }
        // magnitude = ceil(|usd| / pmin): the user pays at least the impact value
        let k = kani::any::<T>().w();
        kani::assume(k * pmin >= -usd && (k - one) * pmin < -usd);
        Some((-k, z))
    } else {
        Some((z, z))
    }
}

fn check_impact_amount<T, O, const D: u8>(
    pool: VPool<T>,
    is_long: bool,
    price: Price<T>,
    usd: T::Signed,
    smax: O,
    umax: O,
) where
    O: Wide,
    T: FixedPointOps<D> + CheckedSub + W<O = O> + Copy + PartialEq + Default + kani::Arbitrary,
    T::Signed: Num + UnsignedAbs<Unsigned = T> + TryFrom<T> + W<O = O> + Copy,
{
    let z = O::zero();
    let mut m: VMarket<T, D> = VMarket::default();
    m.swap_impact = pool;
    let got = m.swap_impact_amount_with_cap(is_long, &price, &usd);
    let want = ref_impact_amount::<T, O>(
        side(&pool, is_long).w(),
        price.min.w(),
        price.max.w(),
        usd.w(),
        smax,
        umax,
    );
    match got {
        Ok((amount, capped)) => {
            let (a, c) = (amount.w(), capped.w());
            // property-level clauses
            if usd.w() > z {
                assert!(a >= z && a <= side(&pool, is_long).w(), "C04/C05: positive impact amount exceeds the impact pool balance");
                assert!(a * price.max.w() + c <= usd.w(), "C05: paid impact amount + capped diff worth more than the impact value");
            }
            if usd.w() < z {
                assert!(a < z && -a * price.min.w() >= -usd.w(), "C04: negative impact amount rounded down");
                assert!((-a - O::one()) * price.min.w() < -usd.w(), "C04: negative impact amount more than one unit above the exact value");
                assert!(c == z);
            }
            kani::cover!(usd.w() > z && c > z, "capped positive impact");
            kani::cover!(usd.w() > z && c == z && a > z, "uncapped positive impact");
            kani::cover!(usd.w() < z && -a * price.min.w() > -usd.w(), "negative impact with a remainder");
            assert!(want == Some((a, c)), "C04: swap_impact_amount_with_cap differs from the exact reference");
        }
        Err(e) => {
            std::mem::forget(e);
            kani::cover!(price.min.w() == z || price.max.w() == z, "zero price rejected");
            assert!(want.is_none(), "C04: swap_impact_amount_with_cap failed where the reference succeeds");
        }
    }
}

//@ prop=C04 tier=quick kind=hold
//@ enc=SwapMarketExt::swap_impact_amount_with_cap, Price::has_zero, Price::pick_price, Unsigned::to_signed
//@ bound=T=u8/i8: every impact-pool balance, side, price pair (incl. zero, min>max) and every i8 impact value
#[kani::proof]
fn c04_impact_amount_with_cap_u8() {
    let price = Price { min: kani::any::<u8>(), max: kani::any::<u8>() };
    check_impact_amount::<u8, i32, 1>(sym::pool(), kani::any(), price, kani::any::<i8>(), i8::MAX as i32, u8::MAX as i32);
}

//@ prop=C04 tier=experimental kind=hold
//@ enc=SwapMarketExt::swap_impact_amount_with_cap, Price::has_zero, Price::pick_price, Unsigned::to_signed
//@ bound=T=u16/i16: every impact-pool balance, side, price pair (incl. zero, min>max) and every i16 impact value -- does NOT finish within 900 s (16-bit signed division by a symbolic divisor against a multiplication-based reference), never selected
#[kani::proof]
fn c04_impact_amount_with_cap_u16() {
    let price = Price { min: kani::any::<u16>(), max: kani::any::<u16>() };
    check_impact_amount::<u16, i64, 2>(sym::pool(), kani::any(), price, kani::any::<i16>(), i16::MAX as i64, u16::MAX as i64);
}

//@ prop=C05 tier=quick kind=hold
//@ enc=SwapMarketExt::swap_impact_amount_with_cap, Price::has_zero, Price::pick_price, Unsigned::to_signed
//@ bound=T=u8/i8: every impact-pool balance, side, price pair (incl. zero, min>max) and every i8 impact value (same body as the C04 harness: the cap by the impact pool balance, rounding down of the paid amount and the exact capped-diff value are what C05's "funded impact" rests on)
#[kani::proof]
fn c05_impact_amount_with_cap_u8() {
    let price = Price { min: kani::any::<u8>(), max: kani::any::<u8>() };
    check_impact_amount::<u8, i32, 1>(sym::pool(), kani::any(), price, kani::any::<i8>(), i8::MAX as i32, u8::MAX as i32);
}

// ------------------------------------------------------------------------------------------------
// Component: fee split feeding the pools
// ------------------------------------------------------------------------------------------------

/// Returns cover flags: (both parts non-zero, discount applied, fee above amount rejected).
fn check_fee_split<T, O, const D: u8>(m: &VMarket<T, D>, improved: bool, amount: T) -> (bool, bool, bool)
where
    O: Wide,
    T: FixedPointOps<D> + CheckedSub + W<O = O> + Copy + PartialEq,
    T::Signed: Num + UnsignedAbs<Unsigned = T> + TryFrom<T> + W<O = O> + Copy,
{
    use gmsol_model::{pool::delta::BalanceChange, SwapMarket};
    let z = O::zero();
    let unit = <T as FixedPointOps<D>>::UNIT.w();
    let params = m.swap_fee_params().unwrap();
    let change = if improved { BalanceChange::Improved } else { BalanceChange::Worsened };
    let f = if improved { m.swap_fee_positive.w() } else { m.swap_fee_negative.w() };
    let disc = if m.swap_fee_has_discount { m.swap_fee_discount.w() } else { z };
    match params.apply_fees(change, &amount) {
        Some((after, fees)) => {
            let (a, p, r) = (after.w(), fees.fee_amount_for_pool().w(), fees.fee_amount_for_receiver().w());
            // what C04 needs: the three parts the swap books into liquidity (after + pool share) and
            // claimable fees (receiver share) add up to exactly the amount that came in
            assert!(a + p + r == amount.w(), "C04: amount_after_fees + pool fee + receiver fee != amount");
            // exact values
            let fee0 = fdiv(amount.w() * f, unit);
            let fee = fee0 - fdiv(fee0 * disc, unit);
            assert!(p + r == fee, "C04: total fee differs from floor(amount*factor/UNIT) less discount");
            assert!(r == fdiv(fee * m.swap_fee_receiver.w(), unit), "C04: receiver fee differs from floor(fee*receiver_factor/UNIT)");
            (r > z && p > z, disc > z && fee < fee0, false)
        }
        None => {
            // fails only when a factor application does not fit or a subtraction would go negative
            let fee0 = fdiv(amount.w() * f, unit);
            let umax = T::max_value_w();
            let d = fdiv(fee0 * disc, unit);
            let fee = fee0 - d;
            let bad = fee0 > umax
                || d > umax
                || d > fee0
                || fdiv(fee * m.swap_fee_receiver.w(), unit) > umax
                || fdiv(fee * m.swap_fee_receiver.w(), unit) > fee
                || fee > amount.w();
            assert!(bad, "C04: apply_fees failed although every intermediate value is representable");
            (false, false, fee > amount.w() && fee0 <= umax)
        }
    }
}

fn fee_market<T: kani::Arbitrary + Default + Copy, const D: u8>() -> VMarket<T, D> {
    let mut m: VMarket<T, D> = VMarket::default();
    m.swap_fee_positive = kani::any();
    m.swap_fee_negative = kani::any();
    m.swap_fee_receiver = kani::any();
    m.swap_fee_has_discount = kani::any();
    m.swap_fee_discount = kani::any();
    m
}

//@ prop=C04 tier=quick kind=hold
//@ enc=FeeParams::apply_fees, FeeParams::fee, FeeParams::receiver_fee, utils::apply_factor, SwapMarket::swap_fee_params (VMarket)
//@ bound=T=u8 DECIMALS=1 (UNIT 10): every amount, both balance-change kinds, every fee / receiver / discount factor (also above 100 %), discount present or absent
#[kani::proof]
fn c04_fee_split_feeds_pools_u8() {
    let m = fee_market::<u8, 1>();
    let c = check_fee_split::<u8, i32, 1>(&m, kani::any(), kani::any());
    kani::cover!(c.0, "both fee parts non-zero");
    kani::cover!(c.1, "discount applied");
    kani::cover!(c.2, "fee above amount rejected");
}

//@ prop=C04 tier=quick kind=hold
//@ enc=FeeParams::apply_fees, FeeParams::fee, FeeParams::receiver_fee, utils::apply_factor, SwapMarket::swap_fee_params (VMarket)
//@ bound=T=u16 DECIMALS=2 (UNIT 100): every amount, both balance-change kinds, every fee / receiver factor (also above 100 %); no discount
#[kani::proof]
fn c04_fee_split_feeds_pools_u16() {
    let mut m = fee_market::<u16, 2>();
    m.swap_fee_has_discount = false;
    let c = check_fee_split::<u16, i64, 2>(&m, kani::any(), kani::any());
    kani::cover!(c.0, "both fee parts non-zero");
    kani::cover!(c.2, "fee above amount rejected");
}

// ------------------------------------------------------------------------------------------------
// Component: delta construction (what is added to which pool)
// ------------------------------------------------------------------------------------------------

/// `BaseMarketExt::checked_apply_delta(Delta::new_both_sides(first_is_long, a, b))` adds `a` to the
/// `first_is_long` side and `b` to the other side of the liquidity pool, the same to the virtual
/// inventory when present, or fails without producing a pool.
fn check_both_sides_delta<T, O, const D: u8>(
    m: &VMarket<T, D>,
    first_is_long: bool,
    a: T::Signed,
    b: T::Signed,
) where
    O: Wide,
    T: FixedPointOps<D> + CheckedSub + W<O = O> + Copy + PartialEq,
    T::Signed: Num + UnsignedAbs<Unsigned = T> + TryFrom<T> + W<O = O> + Copy,
{
    use gmsol_model::{BaseMarketExt, Delta};
    let z = O::zero();
    let umax = T::max_value_w();
    let fits = |cur: T, d: T::Signed| -> bool { cur.w() + d.w() >= z && cur.w() + d.w() <= umax };
    let (dl, ds) = if first_is_long { (a, b) } else { (b, a) };
    match m.checked_apply_delta(Delta::new_both_sides(first_is_long, &a, &b)) {
        Ok((liq, vi)) => {
            assert!(
                liq.long.w() == m.primary.long.w() + dl.w() && liq.short.w() == m.primary.short.w() + ds.w(),
                "C04: liquidity pool delta applied to the wrong side / wrong amount"
            );
            assert!(vi.is_some() == m.has_vi_swaps, "C04: virtual inventory presence");
            if let Some(vi) = vi {
                assert!(
                    vi.long.w() == m.vi_swaps.long.w() + dl.w() && vi.short.w() == m.vi_swaps.short.w() + ds.w(),
                    "C04: virtual inventory delta applied to the wrong side / wrong amount"
                );
            }
            kani::cover!(dl.w() > z && ds.w() < z, "long in, short out");
            kani::cover!(dl.w() < z && ds.w() > z && m.has_vi_swaps, "short in, long out, with virtual inventory");
        }
        Err(e) => {
            std::mem::forget(e);
            let ok_liq = fits(m.primary.long, dl) && fits(m.primary.short, ds);
            let ok_vi = !m.has_vi_swaps || (fits(m.vi_swaps.long, dl) && fits(m.vi_swaps.short, ds));
            assert!(!(ok_liq && ok_vi), "C04: checked_apply_delta failed although both results are representable");
            kani::cover!(ok_liq && !ok_vi, "virtual inventory under/overflow rejects the delta");
        }
    }
}

/// `Pool::checked_apply_delta(Delta::new_one_side(is_long, d))` (claimable-fee and swap-impact
/// bookings in `try_execute`) moves exactly that side.
fn check_one_side_delta<T, O>(pool: VPool<T>, is_long: bool, d: T::Signed)
where
    O: Wide,
    T: MulDiv + Num + CheckedSub + W<O = O> + Copy + PartialEq,
    T::Signed: num_traits::Signed + UnsignedAbs<Unsigned = T> + W<O = O> + Copy,
{
    use gmsol_model::{Delta, Pool, PoolExt};
    let z = O::zero();
    let cur = side(&pool, is_long);
    let want = cur.w() + d.w();
    match pool.checked_apply_delta(Delta::new_one_side(is_long, &d)) {
        Ok(p) => {
            assert!(side(&p, is_long).w() == want, "C04: one-side delta amount");
            assert!(side(&p, !is_long) == side(&pool, !is_long), "C04: one-side delta touched the other side");
        }
        Err(e) => {
            std::mem::forget(e);
            assert!(want < z || want > T::max_value_w(), "C04: one-side delta failed although representable");
        }
    }
    // the in-place variant used by deposit/withdraw (`PoolExt::apply_delta_amount`)
    let mut q = pool;
    match q.apply_delta_amount(is_long, &d) {
        Ok(()) => {
            assert!(side(&q, is_long).w() == want && side(&q, !is_long) == side(&pool, !is_long), "C04: apply_delta_amount");
        }
        Err(e) => {
            std::mem::forget(e);
            assert!(q.same(&pool), "C04: failed apply_delta_amount changed the pool");
        }
    }
}

fn delta_market<T: kani::Arbitrary + Default + Copy, const D: u8>() -> VMarket<T, D> {
    let mut m: VMarket<T, D> = VMarket::default();
    m.primary = sym::pool();
    m.has_vi_swaps = kani::any();
    m.vi_swaps = sym::pool();
    m
}

//@ prop=C04 tier=quick kind=hold
//@ enc=BaseMarketExt::checked_apply_delta, Delta::new_both_sides, Delta::new_one_side, Pool::checked_apply_delta (VPool), PoolExt::apply_delta_amount, Pool::apply_delta_to_long_amount, Pool::apply_delta_to_short_amount
//@ bound=T=u8/i8: every liquidity and virtual-inventory balance (inventory absent/present), side, and pair of i8 deltas
#[kani::proof]
fn c04_delta_construction_u8() {
    let m = delta_market::<u8, 1>();
    check_both_sides_delta::<u8, i32, 1>(&m, kani::any(), kani::any::<i8>(), kani::any::<i8>());
    check_one_side_delta::<u8, i32>(sym::pool(), kani::any(), kani::any::<i8>());
}

//@ prop=C04 tier=quick kind=hold
//@ enc=BaseMarketExt::checked_apply_delta, Delta::new_both_sides, Delta::new_one_side, Pool::checked_apply_delta (VPool), PoolExt::apply_delta_amount, Pool::apply_delta_to_long_amount, Pool::apply_delta_to_short_amount
//@ bound=T=u16/i16: every liquidity and virtual-inventory balance (inventory absent/present), side, and pair of i16 deltas
#[kani::proof]
fn c04_delta_construction_u16() {
    let m = delta_market::<u16, 2>();
    check_both_sides_delta::<u16, i64, 2>(&m, kani::any(), kani::any::<i16>(), kani::any::<i16>());
    check_one_side_delta::<u16, i64>(sym::pool(), kani::any(), kani::any::<i16>());
}

// ------------------------------------------------------------------------------------------------
// Component: SwapMarketMutExt::apply_swap_impact_value_with_cap (the in-place variant used by deposits)
// ------------------------------------------------------------------------------------------------

//@ prop=C04 tier=quick kind=hold
//@ enc=SwapMarketMutExt::apply_swap_impact_value_with_cap, SwapMarketExt::swap_impact_amount_with_cap, Pool::apply_delta_to_long_amount, Pool::apply_delta_to_short_amount
//@ bound=T=u8/i8: every impact-pool balance, side, price pair (0 < min, max) and i8 impact value
#[kani::proof]
fn c04_apply_swap_impact_value_moves_the_pool_u8() {
    let mut m: VMarket<u8, 1> = VMarket::default();
    m.swap_impact = sym::pool();
    let pre = m;
    let is_long: bool = kani::any();
    let price = Price { min: kani::any::<u8>(), max: kani::any::<u8>() };
    let usd: i8 = kani::any();
    let cur = side(&pre.swap_impact, is_long) as i32;
    match m.apply_swap_impact_value_with_cap(is_long, &price, &usd) {
        Ok(ret) => {
            let ret = ret as i32;
            let now = side(&m.swap_impact, is_long) as i32;
            assert!(side(&m.swap_impact, !is_long) == side(&pre.swap_impact, !is_long), "C04: the other side of the impact pool changed");
            if usd > 0 {
                // positive impact is paid out of the pool: never more than the balance, never more than floor(value / max price)
                assert!(now == cur - ret && ret <= cur, "C04: positive impact not deducted from the impact pool");
                assert!(ret * price.max as i32 <= usd as i32, "C04: positive impact amount worth more than the impact value");
                assert!(ret == cur || (ret + 1) * price.max as i32 > usd as i32, "C04: positive impact amount neither capped nor floor(value / max price)");
            } else if usd < 0 {
                // negative impact is paid into the pool, rounded up
                assert!(now == cur + ret, "C04: negative impact not added to the impact pool");
                assert!(ret * price.min as i32 >= -(usd as i32) && (ret - 1) * (price.min as i32) < -(usd as i32), "C04: negative impact amount != ceil(|value| / min price)");
            } else {
                assert!(ret == 0 && now == cur);
            }
            kani::cover!(usd > 0 && ret > 0 && ret == cur, "capped");
            kani::cover!(usd < 0 && ret > 1, "negative");
        }
        Err(e) => {
            std::mem::forget(e);
            assert!(m.swap_impact.same(&pre.swap_impact), "C04: failed impact application changed the pool");
        }
    }
}
