//! C45, model part: `gmsol_model::glv::{get_glv_value_for_market,
//! get_market_token_amount_for_glv_value}` on `VMarket` at `u8` (UNIT 10).
//!
//! How the program uses them (`programs/store/src/ops/glv.rs`): a GLV deposit values the received
//! market tokens with `get_glv_value_for_market(.., maximize = false)` and the vault with
//! `maximize = true`; a GLV withdrawal values the vault with `maximize = false` and converts the
//! value back with `get_market_token_amount_for_glv_value(.., maximize = true, ..)`.

use gmsol_model::{
    glv::{get_glv_value_for_market, get_market_token_amount_for_glv_value},
    price::Prices,
    LiquidityMarketExt, PnlFactorKind,
};

use crate::{
    c06_liquidity::{base_market_u8, check_pool_value_u8, ref_pool_value, ref_pool_value_parts},
    vmarket::{prices, sym, VMarket},
};

/// `get_glv_value_for_market` against: pool value of kind `MaxAfterDeposit` with the requested
/// `maximize` flag (itself checked against the exact reference of C06), converted with
/// `floor(pool_value * balance / supply)`.
/// With `strict_err` the real `pool_value` is also run on its own so that a failure of the function
/// can be judged (costs a second symbolic execution of `pool_value`); without it only successful
/// results are compared (with the exact reference of the pool value).
fn check_glv_value(m: &VMarket<u8, 1>, p: &Prices<u8>, balance: u8, maximize: bool, strict_err: bool) -> Option<u8> {
    let pv_real = if strict_err { check_pool_value_u8(m, p, true, maximize) } else { None };
    match get_glv_value_for_market::<_, 1>(p, m, balance, maximize) {
        Ok(r) => {
            // the pool value the function has to use: kind MaxAfterDeposit, the requested flag
            let pv = r.pool_value;
            assert!(pv as i32 == ref_pool_value::<u8, i32, 1>(m, p, true, maximize), "C45: reported pool value is not pool_value(MaxAfterDeposit, maximize)");
            if strict_err {
                assert!(pv_real == Some(pv), "C45: reported pool value differs from LiquidityMarketExt::pool_value");
            }
            assert!(r.supply == m.total_supply, "C45: reported supply");
            let v = r.market_token_value_in_glv as i32;
            if balance == 0 {
                assert!(v == 0, "C45: zero balance has non-zero value");
            } else {
                assert!(pv >= 0, "C45: negative pool value accepted");
                assert!(m.total_supply > 0, "C45: zero supply accepted");
                let (pvw, b, s) = (pv as i32, balance as i32, m.total_supply as i32);
                assert!(v * s <= pvw * b && (v + 1) * s > pvw * b, "C45: value != floor(pool_value * balance / supply)");
            }
            std::mem::forget(r);
            Some(v as u8)
        }
        Err(e) => {
            std::mem::forget(e);
            // must fail exactly when the pool value fails, is negative (non-zero balance), the
            // supply is zero (non-zero balance) or the result is not representable
            let legit = !strict_err || match pv_real {
                None => true,
                Some(pv) => {
                    balance != 0
                        && (pv < 0
                            || m.total_supply == 0
                            || (pv as i32 * balance as i32) >= 256 * m.total_supply as i32)
                }
            };
            assert!(legit, "C45: get_glv_value_for_market failed where the specification succeeds");
            None
        }
    }
}

/// `get_market_token_amount_for_glv_value` against: pool value of kind `MaxAfterWithdrawal` with the
/// requested flag, converted with `usd_to_market_token_amount` semantics.
fn check_amount_for_glv_value(m: &VMarket<u8, 1>, p: &Prices<u8>, value: u8, maximize: bool, divisor: u8, strict_err: bool) -> Option<u8> {
    let pv_real = if strict_err { check_pool_value_u8(m, p, false, maximize) } else { None };
    match get_market_token_amount_for_glv_value::<_, 1>(p, m, value, maximize, divisor) {
        Ok(a) => {
            // success implies the pool value succeeded; its exact value (kind MaxAfterWithdrawal):
            let pvw = ref_pool_value::<u8, i32, 1>(m, p, false, maximize);
            assert!(pvw >= -128 && pvw <= 127, "C45: amount computed from an unrepresentable pool value");
            let pv = pvw as i8;
            if strict_err {
                assert!(pv_real == Some(pv), "C45: pool value used differs from LiquidityMarketExt::pool_value");
            }
            assert!(pv >= 0, "C45: negative pool value accepted");
            assert!(divisor != 0, "C45: zero divisor accepted");
            let (a, pvw, v, s, d) = (a as i32, pv as i32, value as i32, m.total_supply as i32, divisor as i32);
            if s == 0 && pvw == 0 {
                assert!(a * d <= v && (a + 1) * d > v, "C45: empty market: amount != floor(value / divisor)");
            } else if s == 0 {
                assert!(a * d <= pvw + v && (a + 1) * d > pvw + v, "C45: zero supply: amount != floor((pool_value + value) / divisor)");
            } else {
                assert!(pvw != 0, "C45: empty pool with supply accepted");
                assert!(a * pvw <= s * v && (a + 1) * pvw > s * v, "C45: amount != floor(supply * value / pool_value)");
            }
            Some(a as u8)
        }
        Err(e) => {
            std::mem::forget(e);
            let legit = !strict_err || match pv_real {
                None => true,
                Some(pv) => {
                    let (pvw, v, s) = (pv as i32, value as i32, m.total_supply as i32);
                    pv < 0
                        || divisor == 0
                        || (s == 0 && pvw != 0 && pvw + v > 255)
                        || (s != 0 && pvw == 0)
                        || (s != 0 && pvw != 0 && s * v >= 256 * pvw)
                }
            };
            assert!(legit, "C45: get_market_token_amount_for_glv_value failed where the specification succeeds");
            None
        }
    }
}

/// Lean market: liquidity, impact pool, supply and the distribution clock symbolic; no open interest.
fn lean_market() -> VMarket<u8, 1> {
    let mut m = base_market_u8();
    m.primary = sym::pool();
    m.position_impact = sym::pool();
    m.pi_distribute_factor = kani::any();
    m.pi_min_pool_amount = kani::any();
    m.passed_pi_distribution = kani::any();
    kani::assume(m.passed_pi_distribution <= 255);
    m.total_supply = kani::any();
    m
}

/// Every field symbolic, borrowing clock at zero, borrowing exponents whole units (as in C06).
fn full_market() -> VMarket<u8, 1> {
    let mut m: VMarket<u8, 1> = sym::market_all();
    m.passed_borrowing = 0;
    kani::assume(m.passed_pi_distribution <= 255);
    kani::assume(m.b_exponent_long == 0 || m.b_exponent_long == 10);
    kani::assume(m.b_exponent_short == 0 || m.b_exponent_short == 10);
    m
}

fn any_prices() -> Prices<u8> {
    prices(sym::price_u8(), sym::price_u8(), sym::price_u8())
}

//@ prop=C45 tier=quick kind=hold
//@ enc=glv::get_glv_value_for_market, LiquidityMarketExt::pool_value, utils::market_token_amount_to_usd
//@ bound=T=u8 DECIMALS=1: liquidity pool, position impact pool + distribution parameters and clock, supply, balance, all six prices, maximize flag symbolic; no open interest, no borrowing state
#[kani::proof]
#[kani::unwind(1)]
fn c45_glv_value_for_market_lean_u8() {
    let m = lean_market();
    let r = check_glv_value(&m, &any_prices(), kani::any(), kani::any(), false);
    kani::cover!(matches!(r, Some(v) if v > 0), "non-zero value");
    kani::cover!(r.is_none(), "rejected");
}

//@ prop=C45 tier=quick kind=hold
//@ enc=glv::get_market_token_amount_for_glv_value, LiquidityMarketExt::pool_value, utils::usd_to_market_token_amount
//@ bound=T=u8 DECIMALS=1: liquidity pool, position impact pool + distribution parameters and clock, supply, glv value, divisor, all six prices, maximize flag symbolic; no open interest, no borrowing state
#[kani::proof]
#[kani::unwind(1)]
fn c45_market_token_amount_for_glv_value_lean_u8() {
    let m = lean_market();
    let r = check_amount_for_glv_value(&m, &any_prices(), kani::any(), kani::any(), kani::any(), false);
    kani::cover!(matches!(r, Some(v) if v > 0), "non-zero amount");
    kani::cover!(r.is_none(), "rejected");
}

//@ prop=C45 tier=experimental kind=hold
//@ enc=glv::get_glv_value_for_market, LiquidityMarketExt::pool_value (all terms), utils::market_token_amount_to_usd
//@ bound=T=u8 DECIMALS=1: every market field symbolic (open interest, borrowing state, pnl factors, impact pool), balance, prices, maximize; borrowing clock reads 0 s; borrowing exponents in {0, 1.0} -- its only run hit the 3600 s timeout while the shared machine was out of memory (two all-symbolic pool_value executions, ~12 GB); not seen to pass, hence experimental
//@ timeout=5400 mem=30
#[kani::proof]
#[kani::unwind(1)]
fn c45_glv_value_for_market_u8() {
    let m = full_market();
    let r = check_glv_value(&m, &any_prices(), kani::any(), kani::any(), true);
    kani::cover!(matches!(r, Some(v) if v > 0), "non-zero value");
    kani::cover!(r.is_none(), "rejected");
}

//@ prop=C45 tier=experimental kind=hold
//@ enc=glv::get_market_token_amount_for_glv_value, LiquidityMarketExt::pool_value (all terms), utils::usd_to_market_token_amount
//@ bound=T=u8 DECIMALS=1: every market field symbolic, glv value, divisor, prices, maximize; borrowing clock reads 0 s; borrowing exponents in {0, 1.0} -- stopped at 46 min / 11 GB to free the shared machine; not seen to pass, hence experimental
//@ timeout=5400 mem=30
#[kani::proof]
#[kani::unwind(1)]
fn c45_market_token_amount_for_glv_value_u8() {
    let m = full_market();
    let r = check_amount_for_glv_value(&m, &any_prices(), kani::any(), kani::any(), kani::any(), true);
    kani::cover!(matches!(r, Some(v) if v > 0), "non-zero amount");
    kani::cover!(r.is_none(), "rejected");
}

/// Deposit `a` market tokens through GLV value (minimised, as the program does for the received
/// tokens) and immediately convert the value back (maximised pool value, as the program does on
/// withdrawal): never more than `a` tokens come back.
fn check_glv_round_trip(m: &VMarket<u8, 1>, p: &Prices<u8>, a: u8, divisor: u8) {
    kani::assume(m.total_supply > 0 && a <= m.total_supply);
    let Ok(dep) = get_glv_value_for_market::<_, 1>(p, m, a, false) else { return };
    let v = dep.market_token_value_in_glv;
    std::mem::forget(dep);
    // the program converts at most the value it booked (vault value minimised on withdrawal)
    let v_out: u8 = kani::any();
    kani::assume(v_out <= v);
    let Ok(back) = get_market_token_amount_for_glv_value::<_, 1>(p, m, v_out, true, divisor) else { return };
    assert!(back <= a, "C45: GLV deposit-then-withdraw of market tokens returns more than deposited");
    kani::cover!(back > 0 && back < a, "lossy GLV round trip");
    kani::cover!(back > 0 && back == a, "exact GLV round trip");
}

//@ prop=C45 tier=quick kind=hold
//@ enc=glv::get_glv_value_for_market, glv::get_market_token_amount_for_glv_value, LiquidityMarketExt::pool_value
//@ bound=T=u8 DECIMALS=1: liquidity pool, impact pool + distribution parameters and clock, supply > 0, deposited market tokens <= supply, withdrawn value <= booked value, divisor, all six prices symbolic; no open interest, no borrowing state
#[kani::proof]
#[kani::unwind(1)]
fn c45_glv_round_trip_lean_u8() {
    let m = lean_market();
    check_glv_round_trip(&m, &any_prices(), kani::any(), kani::any());
}

//@ prop=C45 tier=experimental kind=hold
//@ enc=glv::get_glv_value_for_market, glv::get_market_token_amount_for_glv_value, LiquidityMarketExt::pool_value (all terms)
//@ bound=T=u8 DECIMALS=1: every market field symbolic with max pnl factor for withdrawals <= max pnl factor for deposits <= 100 % per side, supply > 0, deposited tokens <= supply, divisor, prices; borrowing clock reads 0 s; borrowing exponents in {0, 1.0} -- does NOT finish within 5400 s (the SAT solver does not get through the non-linear inequality over two all-symbolic pool values); never selected. Decided instead by: exactness of the two functions (c45_*_for_*_u8) + the pool-value order lemma (c45_pool_value_order_lemma_u8) + the conversion lemma (C06)
//@ timeout=5400 mem=36
#[kani::proof]
#[kani::unwind(1)]
fn c45_glv_round_trip_u8() {
    let m = full_market();
    kani::assume(m.pnl_withdrawal_long <= m.pnl_deposit_long && m.pnl_deposit_long <= 10);
    kani::assume(m.pnl_withdrawal_short <= m.pnl_deposit_short && m.pnl_deposit_short <= 10);
    check_glv_round_trip(&m, &any_prices(), kani::any(), kani::any());
}

//@ prop=C45 tier=experimental kind=finding:glv_round_trip_pnl_factor_order
//@ enc=glv::get_glv_value_for_market, glv::get_market_token_amount_for_glv_value, LiquidityMarketExt::pool_value (all terms)
//@ bound=T=u8 DECIMALS=1: the round-trip clause WITHOUT the configuration assumption (max pnl factor for withdrawals <= for deposits <= 100 %): expected to be refuted (capped pnl makes the withdrawal-kind pool value smaller than the deposit-kind one); kept for the lead to decide whether it becomes a known finding; never selected
//@ timeout=5400 mem=36
#[kani::proof]
#[kani::unwind(1)]
fn c45_glv_round_trip_unconstrained_u8() {
    let m = full_market();
    check_glv_round_trip(&m, &any_prices(), kani::any(), kani::any());
}

/// Lemma on the exact pool-value reference (which the C06 `pool_value` harnesses tie to the real
/// code): for the same market and prices, the pool value a GLV withdrawal converts with
/// (kind MaxAfterWithdrawal, maximised) is never below the pool value a GLV deposit values the
/// received market tokens with (kind MaxAfterDeposit, minimised), provided the configured max pnl
/// factor for withdrawals does not exceed the one for deposits and both are at most 100 %.
/// With `v = floor(PVdep * a / S)` and `back = floor(S * v' / PVwd)`, `v' <= v`, `PVwd >= PVdep`
/// this gives `back <= a`.
//@ prop=C45 tier=experimental kind=hold
//@ enc=(reference lemma; the reference is compared with the real LiquidityMarketExt::pool_value by the c06_pool_value_* and c45_*_for_* harnesses)
//@ bound=T=u8 DECIMALS=1: every pool / open interest / borrowing / impact-pool field, the four max pnl factors with withdrawal <= deposit <= 100 % per side, all six prices with min <= max; borrowing clock 0 s -- does NOT finish within 900 s even term by term (pure 8x8-bit products, ~11 symbolic bytes per term); never selected
#[kani::proof]
fn c45_pool_value_order_lemma_u8() {
    let m = full_market();
    kani::assume(m.pnl_withdrawal_long <= m.pnl_deposit_long && m.pnl_deposit_long <= 10);
    kani::assume(m.pnl_withdrawal_short <= m.pnl_deposit_short && m.pnl_deposit_short <= 10);
    let p = any_prices();
    let d: (i32, i32, i32, i32) = ref_pool_value_parts::<u8, i32, 1>(&m, &p, true, false);
    let w: (i32, i32, i32, i32) = ref_pool_value_parts::<u8, i32, 1>(&m, &p, false, true);
    // term by term (the pool value is long_net + short_net + fees - impact)
    assert!(w.0 >= d.0, "C45: long side: maximised liquidity value less withdrawal-capped pnl below minimised value less deposit-capped pnl");
    assert!(w.1 >= d.1, "C45: short side: same");
    assert!(w.2 == d.2, "C45: pending borrowing fees depend on the flag / kind");
    assert!(w.3 <= d.3, "C45: impact pool valued higher when the pool value is maximised");
    kani::cover!(w.0 > d.0 && d.0 > 0, "strictly larger long term");
    kani::cover!(w.0 == d.0 && d.0 > 0, "equal long term");
}
