//! Scratch probes (not scanned by the driver: no `//@` lines).
use crate::c04_swap::*;
use crate::vmarket::{prices, sym, VMarket, VPool};
use gmsol_model::price::Prices;

fn base_u8() -> VMarket<u8, 1> {
    let mut m: VMarket<u8, 1> = VMarket::default();
    m.usd_to_amount_divisor = 1;
    m.swap_impact_exponent = 10;
    m.max_pool_amount_long = 255;
    m.max_pool_amount_short = 255;
    m.max_pool_value_for_deposit_long = 255;
    m.max_pool_value_for_deposit_short = 255;
    m.pnl_deposit_long = 10;
    m.pnl_deposit_short = 10;
    m.pnl_withdrawal_long = 10;
    m.pnl_withdrawal_short = 10;
    m.reserve_factor = 10;
    m.oi_reserve_factor = 10;
    m.max_oi_long = 255;
    m.max_oi_short = 255;
    m
}

#[kani::proof]
#[kani::unwind(4)]
fn probe_a() {
    let mut pre = base_u8();
    pre.primary = sym::pool();
    pre.swap_impact = sym::pool();
    pre.fee = sym::pool();
    let r = check_swap(&mut pre, kani::any(), kani::any(), any_prices_u8(), true, true);
    kani::cover!(r.is_some(), "swap succeeded");
    kani::cover!(r.is_none(), "swap failed");
}

// lean: unwind 1 (exponent concrete UNIT => pow loop never entered), side concrete
#[kani::proof]
#[kani::unwind(1)]
fn probe_b() {
    let mut pre = base_u8();
    pre.primary = sym::pool();
    pre.swap_impact = sym::pool();
    pre.fee = sym::pool();
    let r = check_swap(&mut pre, true, kani::any(), any_prices_u8(), true, true);
    kani::cover!(r.is_some(), "swap succeeded");
    kani::cover!(r.is_none(), "swap failed");
}

// does concretisation prune symex? pool_value with no open interest / no borrowing state
#[kani::proof]
#[kani::unwind(1)]
fn probe_pv_lean() {
    let mut m = crate::c06_liquidity::base_market_u8();
    m.primary = sym::pool();
    m.position_impact = sym::pool();
    m.pi_distribute_factor = kani::any();
    m.pi_min_pool_amount = kani::any();
    m.passed_pi_distribution = kani::any();
    kani::assume(m.passed_pi_distribution <= 255);
    let p = prices(sym::price_u8(), sym::price_u8(), sym::price_u8());
    let r = crate::c06_liquidity::check_pool_value_u8(&m, &p, kani::any(), kani::any());
    kani::cover!(matches!(r, Some(v) if v > 0), "positive pool value");
}

// whole swap from one concrete pool state, symbolic request + fee/impact factors
#[kani::proof]
#[kani::unwind(1)]
fn probe_c() {
    let mut m = crate::c06_liquidity::base_market_u8();
    m.primary = VPool::new(50, 40);
    m.swap_impact = VPool::new(3, 3);
    m.fee = VPool::new(1, 1);
    m.swap_fee_positive = kani::any();
    m.swap_fee_negative = kani::any();
    m.swap_fee_receiver = kani::any();
    m.swap_impact_positive = kani::any();
    m.swap_impact_negative = kani::any();
    let r = check_swap(&mut m, kani::any(), kani::any(), any_prices_u8(), true, true);
    kani::cover!(r.is_some(), "swap succeeded");
    kani::cover!(r.is_none(), "swap failed");
}

