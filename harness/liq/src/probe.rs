//! Scratch probes (not scanned by the driver: no `//@` lines).
use crate::c04_swap::*;
use crate::vmarket::{prices, sym, VMarket, VPool};
use gmsol_model::price::Prices;

fn base_u8() -> VMarket<u8, 1> {
    let mut m: VMarket<u8, 1> = VMarket::default();
    m.usd_to_amount_divisor = 1;
    m.swap_impact_exponent = 10;
    m.max_pool_amount_long = 255;
    m.max_pool_amount_short = 255;
    m.max_pool_value_for_deposit_long = 255;
    m.max_pool_value_for_deposit_short = 255;
    m.pnl_deposit_long = 10;
    m.pnl_deposit_short = 10;
    m.pnl_withdrawal_long = 10;
    m.pnl_withdrawal_short = 10;
    m.reserve_factor = 10;
    m.oi_reserve_factor = 10;
    m.max_oi_long = 255;
    m.max_oi_short = 255;
    m
}

#[kani::proof]
#[kani::unwind(4)]
fn probe_a() {
    let mut pre = base_u8();
    pre.primary = sym::pool();
    pre.swap_impact = sym::pool();
    pre.fee = sym::pool();
    let r = check_swap(&mut pre, kani::any(), kani::any(), any_prices_u8());
    kani::cover!(r.is_some(), "swap succeeded");
    kani::cover!(r.is_none(), "swap failed");
}

// lean: unwind 1 (exponent concrete UNIT => pow loop never entered), side concrete
#[kani::proof]
#[kani::unwind(1)]
fn probe_b() {
    let mut pre = base_u8();
    pre.primary = sym::pool();
    pre.swap_impact = sym::pool();
    pre.fee = sym::pool();
    let r = check_swap(&mut pre, true, kani::any(), any_prices_u8());
    kani::cover!(r.is_some(), "swap succeeded");
    kani::cover!(r.is_none(), "swap failed");
}

#[kani::proof]
fn probe_rt6() {
    let (v, p, s): (u8, u8, u8) = (kani::any(), kani::any(), kani::any());
    kani::assume(v < 64 && p < 64 && s < 64);
    crate::c06_liquidity::check_conversion_round_trip::<u8, i32>(v, p, s);
}
