//! Plain-struct market used as the *environment* of the real generic model code.
//!
//! Every pool, parameter, clock reading and the total supply is a plain field, so a harness can make
//! any subset symbolic. No heap, no `Instant::now()`, no `HashMap` (unlike the repo's `TestMarket`).
//! The struct derives `Clone + PartialEq`, which is what the "failed action leaves the market
//! bit-identical" clauses compare.
//!
//! This file contains no logic of the code under test: the accessors return fields, `mint`/`burn`
//! are checked add/sub on `total_supply`, and `VPool::checked_apply_delta` is checked add/sub of
//! the signed delta on each side (same contract as the repo's `TestPool`).

use std::ops::{Deref, DerefMut};

use gmsol_model::{
    fixed::FixedPointOps,
    num::{MulDiv, Num, Unsigned, UnsignedAbs},
    params::{
        fee::{
            BorrowingFeeKinkModelParams, BorrowingFeeKinkModelParamsForOneSide, BorrowingFeeParams,
        },
        position::PositionImpactDistributionParams,
        FeeParams, PriceImpactParams,
    },
    price::{Price, Prices},
    Balance, BaseMarket, BaseMarketMut, BorrowingFeeMarket, BorrowingFeeMarketMut, Delta,
    LiquidityMarket, LiquidityMarketMut, PnlFactorKind, Pool, PositionImpactMarket,
    PositionImpactMarketMut, SwapMarket, SwapMarketMut,
};
use num_traits::{CheckedAdd, CheckedSub, Signed, Zero};

/// Bounds that the narrow number types satisfy.
pub trait VNum: FixedPointOpsAll + Copy + Default + PartialEq + Eq {}
impl<T: FixedPointOpsAll + Copy + Default + PartialEq + Eq> VNum for T {}

/// Helper alias: a number usable as `BaseMarket::Num` for every `DECIMALS`.
pub trait FixedPointOpsAll: MulDiv + Num + CheckedSub {}
impl<T: MulDiv + Num + CheckedSub> FixedPointOpsAll for T {}

/// A pool with two plain sides.
#[derive(Debug, Default, Clone, Copy, PartialEq, Eq)]
pub struct VPool<T> {
    pub long: T,
    pub short: T,
}

impl<T> VPool<T> {
    pub fn new(long: T, short: T) -> Self {
        Self { long, short }
    }
}

impl<T> Balance for VPool<T>
where
    T: MulDiv + Num + CheckedSub,
{
    type Num = T;
    type Signed = T::Signed;

    fn long_amount(&self) -> gmsol_model::Result<T> {
        Ok(self.long.clone())
    }

    fn short_amount(&self) -> gmsol_model::Result<T> {
        Ok(self.short.clone())
    }
}

fn apply_signed<T>(cur: &T, delta: &T::Signed) -> gmsol_model::Result<T>
where
    T: MulDiv + Num + CheckedSub,
    T::Signed: Signed + UnsignedAbs<Unsigned = T>,
{
    if delta.is_positive() {
        cur.checked_add(&delta.unsigned_abs())
            .ok_or(gmsol_model::Error::Overflow)
    } else {
        cur.checked_sub(&delta.unsigned_abs())
            .ok_or(gmsol_model::Error::Computation("vpool: decreasing amount"))
    }
}

impl<T> Pool for VPool<T>
where
    T: MulDiv + Num + CheckedSub,
    T::Signed: Signed + UnsignedAbs<Unsigned = T>,
{
    fn checked_apply_delta(&self, delta: Delta<&Self::Signed>) -> gmsol_model::Result<Self> {
        let mut ans = self.clone();
        if let Some(amount) = delta.long() {
            ans.long = apply_signed(&ans.long, amount)?;
        }
        if let Some(amount) = delta.short() {
            ans.short = apply_signed(&ans.short, amount)?;
        }
        Ok(ans)
    }
}

/// Plain-struct market. `D` is the number of decimals of the factor parameters.
#[derive(Debug, Default, Clone, Copy, PartialEq, Eq)]
pub struct VMarket<T, const D: u8> {
    // ---- token / value pools
    pub primary: VPool<T>,
    pub swap_impact: VPool<T>,
    pub fee: VPool<T>,
    pub oi_long: VPool<T>,
    pub oi_short: VPool<T>,
    pub oit_long: VPool<T>,
    pub oit_short: VPool<T>,
    pub collateral_long: VPool<T>,
    pub collateral_short: VPool<T>,
    pub position_impact: VPool<T>,
    pub borrowing_factor: VPool<T>,
    pub total_borrowing: VPool<T>,
    pub has_vi_swaps: bool,
    pub vi_swaps: VPool<T>,
    pub has_vi_positions: bool,
    pub vi_positions: VPool<T>,
    // ---- market token
    pub total_supply: T,
    pub usd_to_amount_divisor: T,
    // ---- swap params
    pub swap_impact_exponent: T,
    pub swap_impact_positive: T,
    pub swap_impact_negative: T,
    pub swap_fee_positive: T,
    pub swap_fee_negative: T,
    pub swap_fee_receiver: T,
    pub swap_fee_has_discount: bool,
    pub swap_fee_discount: T,
    // ---- limits
    pub max_pool_amount_long: T,
    pub max_pool_amount_short: T,
    pub max_pool_value_for_deposit_long: T,
    pub max_pool_value_for_deposit_short: T,
    pub pnl_deposit_long: T,
    pub pnl_deposit_short: T,
    pub pnl_withdrawal_long: T,
    pub pnl_withdrawal_short: T,
    pub pnl_trader: T,
    pub pnl_adl: T,
    pub pnl_min_after_adl: T,
    pub reserve_factor: T,
    pub oi_reserve_factor: T,
    pub max_oi_long: T,
    pub max_oi_short: T,
    pub ignore_oi_for_usage: bool,
    // ---- position impact
    pub pi_exponent: T,
    pub pi_positive: T,
    pub pi_negative: T,
    pub pi_distribute_factor: T,
    pub pi_min_pool_amount: T,
    pub passed_pi_distribution: u64,
    // ---- borrowing
    pub b_receiver_factor: T,
    pub b_exponent_long: T,
    pub b_exponent_short: T,
    pub b_factor_long: T,
    pub b_factor_short: T,
    pub b_skip_smaller_side: bool,
    pub b_optimal_usage_long: T,
    pub b_optimal_usage_short: T,
    pub b_base_long: T,
    pub b_base_short: T,
    pub b_above_long: T,
    pub b_above_short: T,
    pub passed_borrowing: u64,
    // ---- instrumentation (never read by the model): number of `*_mut` accessor / mint / burn calls
    pub mut_calls: u8,
}

impl<T, const D: u8> VMarket<T, D> {
    #[inline]
    fn touch(&mut self) {
        self.mut_calls = self.mut_calls.wrapping_add(1);
    }
}

impl<T, const D: u8> BaseMarket<D> for VMarket<T, D>
where
    T: FixedPointOps<D> + CheckedSub,
    T::Signed: Num + UnsignedAbs<Unsigned = T> + TryFrom<T>,
{
    type Num = T;
    type Signed = T::Signed;
    type Pool = VPool<T>;

    fn liquidity_pool(&self) -> gmsol_model::Result<&Self::Pool> {
        Ok(&self.primary)
    }

    fn claimable_fee_pool(&self) -> gmsol_model::Result<&Self::Pool> {
        Ok(&self.fee)
    }

    fn swap_impact_pool(&self) -> gmsol_model::Result<&Self::Pool> {
        Ok(&self.swap_impact)
    }

    fn open_interest_pool(&self, is_long: bool) -> gmsol_model::Result<&Self::Pool> {
        Ok(if is_long { &self.oi_long } else { &self.oi_short })
    }

    fn open_interest_in_tokens_pool(&self, is_long: bool) -> gmsol_model::Result<&Self::Pool> {
        Ok(if is_long { &self.oit_long } else { &self.oit_short })
    }

    fn collateral_sum_pool(&self, is_long: bool) -> gmsol_model::Result<&Self::Pool> {
        Ok(if is_long {
            &self.collateral_long
        } else {
            &self.collateral_short
        })
    }

    fn virtual_inventory_for_swaps_pool(
        &self,
    ) -> gmsol_model::Result<Option<impl Deref<Target = Self::Pool>>> {
        Ok(if self.has_vi_swaps {
            Some(&self.vi_swaps)
        } else {
            None
        })
    }

    fn virtual_inventory_for_positions_pool(
        &self,
    ) -> gmsol_model::Result<Option<impl Deref<Target = Self::Pool>>> {
        Ok(if self.has_vi_positions {
            Some(&self.vi_positions)
        } else {
            None
        })
    }

    fn usd_to_amount_divisor(&self) -> Self::Num {
        self.usd_to_amount_divisor.clone()
    }

    fn max_pool_amount(&self, is_long_token: bool) -> gmsol_model::Result<Self::Num> {
        Ok(if is_long_token {
            self.max_pool_amount_long.clone()
        } else {
            self.max_pool_amount_short.clone()
        })
    }

    fn pnl_factor_config(&self, kind: PnlFactorKind, is_long: bool) -> gmsol_model::Result<T> {
        Ok(match (kind, is_long) {
            (PnlFactorKind::MaxAfterDeposit, true) => self.pnl_deposit_long.clone(),
            (PnlFactorKind::MaxAfterDeposit, false) => self.pnl_deposit_short.clone(),
            (PnlFactorKind::MaxAfterWithdrawal, true) => self.pnl_withdrawal_long.clone(),
            (PnlFactorKind::MaxAfterWithdrawal, false) => self.pnl_withdrawal_short.clone(),
            (PnlFactorKind::MaxForTrader, _) => self.pnl_trader.clone(),
            (PnlFactorKind::ForAdl, _) => self.pnl_adl.clone(),
            (PnlFactorKind::MinAfterAdl, _) => self.pnl_min_after_adl.clone(),
            _ => return Err(gmsol_model::Error::Unimplemented),
        })
    }

    fn reserve_factor(&self) -> gmsol_model::Result<T> {
        Ok(self.reserve_factor.clone())
    }

    fn open_interest_reserve_factor(&self) -> gmsol_model::Result<T> {
        Ok(self.oi_reserve_factor.clone())
    }

    fn max_open_interest(&self, is_long: bool) -> gmsol_model::Result<T> {
        Ok(if is_long {
            self.max_oi_long.clone()
        } else {
            self.max_oi_short.clone()
        })
    }

    fn ignore_open_interest_for_usage_factor(&self) -> gmsol_model::Result<bool> {
        Ok(self.ignore_oi_for_usage)
    }
}

impl<T, const D: u8> BaseMarketMut<D> for VMarket<T, D>
where
    T: FixedPointOps<D> + CheckedSub,
    T::Signed: Num + UnsignedAbs<Unsigned = T> + TryFrom<T>,
{
    fn liquidity_pool_mut(&mut self) -> gmsol_model::Result<&mut Self::Pool> {
        self.touch();
        Ok(&mut self.primary)
    }

    fn claimable_fee_pool_mut(&mut self) -> gmsol_model::Result<&mut Self::Pool> {
        self.touch();
        Ok(&mut self.fee)
    }

    fn virtual_inventory_for_swaps_pool_mut(
        &mut self,
    ) -> gmsol_model::Result<Option<impl DerefMut<Target = Self::Pool>>> {
        self.touch();
        Ok(if self.has_vi_swaps {
            Some(&mut self.vi_swaps)
        } else {
            None
        })
    }
}

impl<T, const D: u8> SwapMarket<D> for VMarket<T, D>
where
    T: FixedPointOps<D> + CheckedSub,
    T::Signed: Num + UnsignedAbs<Unsigned = T> + TryFrom<T>,
{
    fn swap_impact_params(&self) -> gmsol_model::Result<PriceImpactParams<T>> {
        Ok(PriceImpactParams::builder()
            .exponent(self.swap_impact_exponent.clone())
            .positive_factor(self.swap_impact_positive.clone())
            .negative_factor(self.swap_impact_negative.clone())
            .build())
    }

    fn swap_fee_params(&self) -> gmsol_model::Result<FeeParams<T>> {
        let p = FeeParams::builder()
            .fee_receiver_factor(self.swap_fee_receiver.clone())
            .positive_impact_fee_factor(self.swap_fee_positive.clone())
            .negative_impact_fee_factor(self.swap_fee_negative.clone())
            .build();
        Ok(if self.swap_fee_has_discount {
            p.with_discount_factor(self.swap_fee_discount.clone())
        } else {
            p
        })
    }
}

impl<T, const D: u8> SwapMarketMut<D> for VMarket<T, D>
where
    T: FixedPointOps<D> + CheckedSub,
    T::Signed: Num + UnsignedAbs<Unsigned = T> + TryFrom<T>,
{
    fn swap_impact_pool_mut(&mut self) -> gmsol_model::Result<&mut Self::Pool> {
        self.touch();
        Ok(&mut self.swap_impact)
    }
}

impl<T, const D: u8> PositionImpactMarket<D> for VMarket<T, D>
where
    T: FixedPointOps<D> + CheckedSub,
    T::Signed: Num + UnsignedAbs<Unsigned = T> + TryFrom<T>,
{
    fn position_impact_pool(&self) -> gmsol_model::Result<&Self::Pool> {
        Ok(&self.position_impact)
    }

    fn position_impact_params(&self) -> gmsol_model::Result<PriceImpactParams<T>> {
        Ok(PriceImpactParams::builder()
            .exponent(self.pi_exponent.clone())
            .positive_factor(self.pi_positive.clone())
            .negative_factor(self.pi_negative.clone())
            .build())
    }

    fn position_impact_distribution_params(
        &self,
    ) -> gmsol_model::Result<PositionImpactDistributionParams<T>> {
        Ok(PositionImpactDistributionParams::builder()
            .distribute_factor(self.pi_distribute_factor.clone())
            .min_position_impact_pool_amount(self.pi_min_pool_amount.clone())
            .build())
    }

    fn passed_in_seconds_for_position_impact_distribution(&self) -> gmsol_model::Result<u64> {
        Ok(self.passed_pi_distribution)
    }
}

impl<T, const D: u8> PositionImpactMarketMut<D> for VMarket<T, D>
where
    T: FixedPointOps<D> + CheckedSub,
    T::Signed: Num + UnsignedAbs<Unsigned = T> + TryFrom<T>,
{
    fn position_impact_pool_mut(&mut self) -> gmsol_model::Result<&mut Self::Pool> {
        self.touch();
        Ok(&mut self.position_impact)
    }

    fn just_passed_in_seconds_for_position_impact_distribution(
        &mut self,
    ) -> gmsol_model::Result<u64> {
        self.touch();
        let d = self.passed_pi_distribution;
        self.passed_pi_distribution = 0;
        Ok(d)
    }
}

impl<T, const D: u8> BorrowingFeeMarket<D> for VMarket<T, D>
where
    T: FixedPointOps<D> + CheckedSub,
    T::Signed: Num + UnsignedAbs<Unsigned = T> + TryFrom<T>,
{
    fn borrowing_factor_pool(&self) -> gmsol_model::Result<&Self::Pool> {
        Ok(&self.borrowing_factor)
    }

    fn total_borrowing_pool(&self) -> gmsol_model::Result<&Self::Pool> {
        Ok(&self.total_borrowing)
    }

    fn borrowing_fee_params(&self) -> gmsol_model::Result<BorrowingFeeParams<T>> {
        Ok(BorrowingFeeParams::builder()
            .receiver_factor(self.b_receiver_factor.clone())
            .exponent_for_long(self.b_exponent_long.clone())
            .exponent_for_short(self.b_exponent_short.clone())
            .factor_for_long(self.b_factor_long.clone())
            .factor_for_short(self.b_factor_short.clone())
            .skip_borrowing_fee_for_smaller_side(self.b_skip_smaller_side)
            .build())
    }

    fn passed_in_seconds_for_borrowing(&self) -> gmsol_model::Result<u64> {
        Ok(self.passed_borrowing)
    }

    fn borrowing_fee_kink_model_params(
        &self,
    ) -> gmsol_model::Result<BorrowingFeeKinkModelParams<T>> {
        Ok(BorrowingFeeKinkModelParams::builder()
            .long(
                BorrowingFeeKinkModelParamsForOneSide::builder()
                    .optimal_usage_factor(self.b_optimal_usage_long.clone())
                    .base_borrowing_factor(self.b_base_long.clone())
                    .above_optimal_usage_borrowing_factor(self.b_above_long.clone())
                    .build(),
            )
            .short(
                BorrowingFeeKinkModelParamsForOneSide::builder()
                    .optimal_usage_factor(self.b_optimal_usage_short.clone())
                    .base_borrowing_factor(self.b_base_short.clone())
                    .above_optimal_usage_borrowing_factor(self.b_above_short.clone())
                    .build(),
            )
            .build())
    }
}

impl<T, const D: u8> BorrowingFeeMarketMut<D> for VMarket<T, D>
where
    T: FixedPointOps<D> + CheckedSub,
    T::Signed: Num + UnsignedAbs<Unsigned = T> + TryFrom<T>,
{
    fn just_passed_in_seconds_for_borrowing(&mut self) -> gmsol_model::Result<u64> {
        self.touch();
        let d = self.passed_borrowing;
        self.passed_borrowing = 0;
        Ok(d)
    }

    fn borrowing_factor_pool_mut(&mut self) -> gmsol_model::Result<&mut Self::Pool> {
        self.touch();
        Ok(&mut self.borrowing_factor)
    }
}

impl<T, const D: u8> LiquidityMarket<D> for VMarket<T, D>
where
    T: FixedPointOps<D> + CheckedSub,
    T::Signed: Num + UnsignedAbs<Unsigned = T> + TryFrom<T>,
{
    fn total_supply(&self) -> T {
        self.total_supply.clone()
    }

    fn max_pool_value_for_deposit(&self, is_long_token: bool) -> gmsol_model::Result<T> {
        Ok(if is_long_token {
            self.max_pool_value_for_deposit_long.clone()
        } else {
            self.max_pool_value_for_deposit_short.clone()
        })
    }
}

impl<T, const D: u8> LiquidityMarketMut<D> for VMarket<T, D>
where
    T: FixedPointOps<D> + CheckedSub,
    T::Signed: Num + UnsignedAbs<Unsigned = T> + TryFrom<T>,
{
    fn mint(&mut self, amount: &T) -> Result<(), gmsol_model::Error> {
        self.touch();
        self.total_supply = self
            .total_supply
            .checked_add(amount)
            .ok_or(gmsol_model::Error::Overflow)?;
        Ok(())
    }

    fn burn(&mut self, amount: &T) -> gmsol_model::Result<()> {
        self.touch();
        self.total_supply = self
            .total_supply
            .checked_sub(amount)
            .ok_or(gmsol_model::Error::Computation("burning market tokens"))?;
        Ok(())
    }
}


/// Branch-free comparisons (derived `PartialEq` short-circuits field by field, which costs one
/// symbolic-execution branch merge per field; `&` on `bool` does not).
impl<T: PartialEq + Copy> VPool<T> {
    #[inline]
    pub fn same(&self, o: &Self) -> bool {
        (self.long == o.long) & (self.short == o.short)
    }
}

impl<T: PartialEq + Copy, const D: u8> VMarket<T, D> {
    /// Pools written by a swap: liquidity, swap impact, claimable fee, virtual inventory for swaps.
    pub fn same_swap_pools(&self, o: &Self) -> bool {
        self.primary.same(&o.primary)
            & self.swap_impact.same(&o.swap_impact)
            & self.fee.same(&o.fee)
            & self.vi_swaps.same(&o.vi_swaps)
    }

    /// Every pool other than the ones a swap writes, and the market token supply.
    pub fn same_other_pools(&self, o: &Self) -> bool {
        self.oi_long.same(&o.oi_long)
            & self.oi_short.same(&o.oi_short)
            & self.oit_long.same(&o.oit_long)
            & self.oit_short.same(&o.oit_short)
            & self.collateral_long.same(&o.collateral_long)
            & self.collateral_short.same(&o.collateral_short)
            & self.position_impact.same(&o.position_impact)
            & self.borrowing_factor.same(&o.borrowing_factor)
            & self.total_borrowing.same(&o.total_borrowing)
            & self.vi_positions.same(&o.vi_positions)
            & (self.has_vi_swaps == o.has_vi_swaps)
            & (self.has_vi_positions == o.has_vi_positions)
            & (self.total_supply == o.total_supply)
            & (self.passed_pi_distribution == o.passed_pi_distribution)
            & (self.passed_borrowing == o.passed_borrowing)
    }

    /// Every parameter (nothing an action may write).
    pub fn same_params(&self, o: &Self) -> bool {
        (self.usd_to_amount_divisor == o.usd_to_amount_divisor)
            & (self.swap_impact_exponent == o.swap_impact_exponent)
            & (self.swap_impact_positive == o.swap_impact_positive)
            & (self.swap_impact_negative == o.swap_impact_negative)
            & (self.swap_fee_positive == o.swap_fee_positive)
            & (self.swap_fee_negative == o.swap_fee_negative)
            & (self.swap_fee_receiver == o.swap_fee_receiver)
            & (self.swap_fee_has_discount == o.swap_fee_has_discount)
            & (self.swap_fee_discount == o.swap_fee_discount)
            & (self.max_pool_amount_long == o.max_pool_amount_long)
            & (self.max_pool_amount_short == o.max_pool_amount_short)
            & (self.max_pool_value_for_deposit_long == o.max_pool_value_for_deposit_long)
            & (self.max_pool_value_for_deposit_short == o.max_pool_value_for_deposit_short)
            & (self.pnl_deposit_long == o.pnl_deposit_long)
            & (self.pnl_deposit_short == o.pnl_deposit_short)
            & (self.pnl_withdrawal_long == o.pnl_withdrawal_long)
            & (self.pnl_withdrawal_short == o.pnl_withdrawal_short)
            & (self.pnl_trader == o.pnl_trader)
            & (self.pnl_adl == o.pnl_adl)
            & (self.pnl_min_after_adl == o.pnl_min_after_adl)
            & (self.reserve_factor == o.reserve_factor)
            & (self.oi_reserve_factor == o.oi_reserve_factor)
            & (self.max_oi_long == o.max_oi_long)
            & (self.max_oi_short == o.max_oi_short)
            & (self.ignore_oi_for_usage == o.ignore_oi_for_usage)
            & (self.pi_exponent == o.pi_exponent)
            & (self.pi_positive == o.pi_positive)
            & (self.pi_negative == o.pi_negative)
            & (self.pi_distribute_factor == o.pi_distribute_factor)
            & (self.pi_min_pool_amount == o.pi_min_pool_amount)
            & (self.b_receiver_factor == o.b_receiver_factor)
            & (self.b_exponent_long == o.b_exponent_long)
            & (self.b_exponent_short == o.b_exponent_short)
            & (self.b_factor_long == o.b_factor_long)
            & (self.b_factor_short == o.b_factor_short)
            & (self.b_skip_smaller_side == o.b_skip_smaller_side)
            & (self.b_optimal_usage_long == o.b_optimal_usage_long)
            & (self.b_optimal_usage_short == o.b_optimal_usage_short)
            & (self.b_base_long == o.b_base_long)
            & (self.b_base_short == o.b_base_short)
            & (self.b_above_long == o.b_above_long)
            & (self.b_above_short == o.b_above_short)
    }

    /// Bit-identical, including the count of mutable accesses (same relation as the derived `==`).
    pub fn same(&self, o: &Self) -> bool {
        self.same_swap_pools(o) & self.same_other_pools(o) & self.same_params(o) & (self.mut_calls == o.mut_calls)
    }
}

/// Build `Prices` from six plain numbers.
pub fn prices<T>(index: (T, T), long: (T, T), short: (T, T)) -> Prices<T> {
    Prices {
        index_token_price: Price {
            min: index.0,
            max: index.1,
        },
        long_token_price: Price {
            min: long.0,
            max: long.1,
        },
        short_token_price: Price {
            min: short.0,
            max: short.1,
        },
    }
}

#[cfg(kani)]
pub mod sym {
    use super::*;

    pub fn pool<T: kani::Arbitrary>() -> VPool<T> {
        VPool {
            long: kani::any(),
            short: kani::any(),
        }
    }

    /// A price with `0 < min <= max` and `min + max` representable (what `Prices::validate` and the
    /// oracle guarantee).
    pub fn price_u8() -> (u8, u8) {
        let min: u8 = kani::any();
        let max: u8 = kani::any();
        kani::assume(min > 0 && min <= max && (min as u16 + max as u16) <= u8::MAX as u16);
        (min, max)
    }

    pub fn price_u16() -> (u16, u16) {
        let min: u16 = kani::any();
        let max: u16 = kani::any();
        kani::assume(min > 0 && min <= max && (min as u32 + max as u32) <= u16::MAX as u32);
        (min, max)
    }

    /// Every field symbolic.
    pub fn market_all<T: kani::Arbitrary, const D: u8>() -> VMarket<T, D> {
        VMarket {
            primary: pool(),
            swap_impact: pool(),
            fee: pool(),
            oi_long: pool(),
            oi_short: pool(),
            oit_long: pool(),
            oit_short: pool(),
            collateral_long: pool(),
            collateral_short: pool(),
            position_impact: pool(),
            borrowing_factor: pool(),
            total_borrowing: pool(),
            has_vi_swaps: kani::any(),
            vi_swaps: pool(),
            has_vi_positions: kani::any(),
            vi_positions: pool(),
            total_supply: kani::any(),
            usd_to_amount_divisor: kani::any(),
            swap_impact_exponent: kani::any(),
            swap_impact_positive: kani::any(),
            swap_impact_negative: kani::any(),
            swap_fee_positive: kani::any(),
            swap_fee_negative: kani::any(),
            swap_fee_receiver: kani::any(),
            swap_fee_has_discount: kani::any(),
            swap_fee_discount: kani::any(),
            max_pool_amount_long: kani::any(),
            max_pool_amount_short: kani::any(),
            max_pool_value_for_deposit_long: kani::any(),
            max_pool_value_for_deposit_short: kani::any(),
            pnl_deposit_long: kani::any(),
            pnl_deposit_short: kani::any(),
            pnl_withdrawal_long: kani::any(),
            pnl_withdrawal_short: kani::any(),
            pnl_trader: kani::any(),
            pnl_adl: kani::any(),
            pnl_min_after_adl: kani::any(),
            reserve_factor: kani::any(),
            oi_reserve_factor: kani::any(),
            max_oi_long: kani::any(),
            max_oi_short: kani::any(),
            ignore_oi_for_usage: kani::any(),
            pi_exponent: kani::any(),
            pi_positive: kani::any(),
            pi_negative: kani::any(),
            pi_distribute_factor: kani::any(),
            pi_min_pool_amount: kani::any(),
            passed_pi_distribution: kani::any(),
            b_receiver_factor: kani::any(),
            b_exponent_long: kani::any(),
            b_exponent_short: kani::any(),
            b_factor_long: kani::any(),
            b_factor_short: kani::any(),
            b_skip_smaller_side: kani::any(),
            b_optimal_usage_long: kani::any(),
            b_optimal_usage_short: kani::any(),
            b_base_long: kani::any(),
            b_base_short: kani::any(),
            b_above_long: kani::any(),
            b_above_short: kani::any(),
            passed_borrowing: kani::any(),
            mut_calls: 0,
        }
    }
}
