//! Kani harnesses over the real `gmsol-model` liquidity/swap/GLV code (`/repo/crates/model`),
//! instantiated at the narrow number types that exist under `--cfg gmsol_verif`
//! (`T = u8, DECIMALS = 1` => UNIT 10; `T = u16, DECIMALS = 2` => UNIT 100).
//!
//! Harness metadata is carried in `//@` comment lines directly above each `#[kani::proof]`
//! and parsed by `/verif/lib/vcheck.py`.
#![allow(clippy::all)]
#![allow(unused)]

pub mod vmarket;

#[cfg(kani)]
mod wide;

#[cfg(kani)]
pub mod c04_swap;
#[cfg(kani)]
pub mod c06_liquidity;
#[cfg(kani)]
mod c45_glv;
