#!/bin/bash
# Final evidence run: every claimed check's quick command on the current tree, in lanes partitioned by harness crate
# (two drivers must not build the same crate concurrently). Results: /tmp/lanes/<lane>.log, summary /tmp/lanes/summary.log
cd /verif
mkdir -p /tmp/lanes; rm -f /tmp/lanes/*.log
lane() {
  name=$1; shift
  for id in "$@"; do
    t0=$(date +%s); rm -f evidence/$id.json
    VERIF_JOBS=${LANE_JOBS:-5} ./check $id --tier quick > /tmp/lanes/$id.out 2>&1; rc=$?
    t1=$(date +%s)
    echo "$id rc=$rc wall=$((t1-t0))s kf=$(grep -c 'KNOWN-FINDING' /tmp/lanes/$id.out) $(grep -E 'VIOLATION|INCONCLUSIVE|BROKEN|BUILD-FAILED' /tmp/lanes/$id.out | head -3 | tr '\n' ' ' | cut -c1-300)" >> /tmp/lanes/$name.log
  done
  echo "LANE-DONE $name" >> /tmp/lanes/$name.log
}
lane A C15 C16 C17 C20 C21 C22 C25 C33 C40 C31 C32 C24 C29 C30 &
lane B C02 C03 C11 C12 C14 C01 C23 C27 C34 C35 C28 C26 &
lane C C05 C06 C45 C04 C07 C08 C09 C10 C13 &
lane D C36 C39 C37 C38 C43 &
wait
cat /tmp/lanes/A.log /tmp/lanes/B.log /tmp/lanes/C.log /tmp/lanes/D.log > /tmp/lanes/summary.log
