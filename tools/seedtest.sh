#!/bin/bash
# usage: tools/seedtest.sh <patch.diff> <Cnn> [extra ./check args]
# Applies a seeded change to /repo, runs the property's quick check, and always reverts the touched files.
# The evidence file written by the seeded run describes a mutated tree, so the committed one is put back
# afterwards (the seeded run's record is kept next to the log, outside /verif/evidence).
patch="$1"; prop="$2"; shift 2
files=$(git -C /repo apply --numstat "$patch" | awk '{print $3}')
if ! git -C /repo apply --check "$patch"; then echo "SEEDTEST $prop: patch does not apply"; exit 3; fi
keep=$(mktemp -d)
[ -f /verif/evidence/$prop.json ] && cp /verif/evidence/$prop.json "$keep/$prop.json"
git -C /repo apply "$patch"
cd /verif && ./check "$prop" --tier quick "$@" > /tmp/seedtest_$prop.log 2>&1
rc=$?
for f in $files; do git -C /repo checkout -- "$f"; done
[ -f /verif/evidence/$prop.json ] && mv /verif/evidence/$prop.json /tmp/seedtest_$prop.evidence.json
[ -f "$keep/$prop.json" ] && mv "$keep/$prop.json" /verif/evidence/$prop.json
rm -rf "$keep"
echo "SEEDTEST $prop: exit=$rc"
grep -E "VIOLATION|INCONCLUSIVE|\[failed|KNOWN-FINDING" /tmp/seedtest_$prop.log | head -8
exit $rc
