#!/bin/bash
# usage: tools/seedtest.sh <patch.diff> <Cnn> [extra ./check args]
# Applies a seeded change to /repo, runs the property's quick check, and always reverts the touched files.
patch="$1"; prop="$2"; shift 2
files=$(git -C /repo apply --numstat "$patch" | awk '{print $3}')
if ! git -C /repo apply --check "$patch"; then echo "SEEDTEST $prop: patch does not apply"; exit 3; fi
git -C /repo apply "$patch"
cd /verif && ./check "$prop" --tier quick "$@" > /tmp/seedtest_$prop.log 2>&1
rc=$?
for f in $files; do git -C /repo checkout -- "$f"; done
echo "SEEDTEST $prop: exit=$rc"
grep -E "VIOLATION|INCONCLUSIVE|\[failed|KNOWN-FINDING" /tmp/seedtest_$prop.log | head -8
exit $rc
