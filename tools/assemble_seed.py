#!/usr/bin/env python3
"""usage: assemble_seed.py <ID> <caught|missed|inconclusive> "<which check / why>" [src_dir]
Copies a confirmed seeded change into /verif/seeded/<ID>/ with the confirmation record."""
import json, os, shutil, sys
sid, verdict, how = sys.argv[1], sys.argv[2], sys.argv[3]
src = (sys.argv[4] if len(sys.argv) > 4 else "/tmp/seed/out") + "/" + sid
dst = "/verif/seeded/" + sid
shutil.rmtree(dst, ignore_errors=True)
os.makedirs(dst)
shutil.copy(src + "/patch.diff", dst + "/patch.diff")
shutil.copytree(src + "/demo", dst + "/demo")
meta = json.load(open(src + "/meta.json")) if os.path.exists(src + "/meta.json") else {"property": sid}
meta["property"] = meta.get("property", sid)
conf = "/tmp/confirm/%s.result" % sid
meta["confirmed_by_verif_author"] = open(conf).read().strip().split("\n") if os.path.exists(conf) else []
meta["confirmation_procedure"] = ("scratch worktree of /repo HEAD (tools/confirm_seed.sh): crate tests with the change applied, "
                                  "demonstration without the change (passes) and with it (fails)")
meta["check_result"] = {"verdict": verdict, "detail": how,
                        "command": "tools/seedtest.sh seeded/%s/patch.diff %s (applies the patch to /repo, runs ./check %s --tier quick, reverts)" % (sid, sid[:3], sid[:3])}
json.dump(meta, open(dst + "/meta.json", "w"), indent=1)
print("assembled", dst, verdict)
