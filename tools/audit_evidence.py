#!/usr/bin/env python3
"""Audit /verif/evidence against MANIFEST.json before committing.

For every claimed property: the evidence file exists, validates against the evidence schema, records a
clean run of the unchanged tree (violations == 0, nothing inconclusive, every harness success or
known-finding), and -- proof level -- obligations == discharged >= 1. Evidence files of unclaimed
properties are reported too (they should not be committed).  Exit 1 on any problem.

Seed tests (tools/seedtest.sh) rewrite evidence files from a mutated tree; this audit is what keeps such
a record from being committed (it happened once: C23/C35 after round 4).
"""
import glob, json, os, sys
ROOT = os.path.dirname(os.path.dirname(os.path.abspath(__file__)))
SCHEMA = next((p for p in ("/root/.vp/EVIDENCE.schema.json", os.path.join(ROOT, "lib", "EVIDENCE.schema.json"))
               if os.path.exists(p)), None)
try:
    import jsonschema
except ImportError:
    jsonschema = None

def main():
    man = json.load(open(os.path.join(ROOT, "MANIFEST.json")))
    claimed = {c["property_id"]: c for c in man["checks"]}
    schema = json.load(open(SCHEMA)) if SCHEMA and jsonschema else None
    if schema is None:
        print("audit: jsonschema or schema file not available; structural checks only (use python3-vt)")
    bad = 0
    for pid, c in sorted(claimed.items()):
        path = c["evidence_file"]
        probs = []
        if not os.path.exists(path):
            probs.append("missing")
        else:
            d = json.load(open(path))
            if schema is not None:
                for e in jsonschema.Draft202012Validator(schema).iter_errors(d):
                    probs.append("schema: " + e.message[:100])
            cov = d.get("coverage", {})
            if d.get("property_id") != pid:
                probs.append("property_id mismatch")
            if d.get("level") != c["level_claimed"]["category"]:
                probs.append("level %s != claimed %s" % (d.get("level"), c["level_claimed"]["category"]))
            if d.get("violations"):
                probs.append("violations=%s (record of a mutated tree?)" % d["violations"])
            if cov.get("inconclusive"):
                probs.append("inconclusive: %s" % cov["inconclusive"])
            if d.get("level") == "proof":
                o, k = cov.get("obligations", 0), cov.get("discharged", 0)
                if o < 1 or o != k:
                    probs.append("obligations=%s discharged=%s" % (o, k))
            for s in cov.get("samples", []):
                if isinstance(s, dict) and s.get("engine") == "kani/cbmc" and s.get("status") not in ("success", "known-finding"):
                    probs.append("harness %s status=%s" % (s.get("harness"), s.get("status")))
        if probs:
            bad += 1
            print("BAD  %s: %s" % (pid, "; ".join(probs)))
    for f in sorted(glob.glob(os.path.join(ROOT, "evidence", "*.json"))):
        pid = os.path.basename(f)[:-5]
        if pid not in claimed:
            bad += 1
            print("BAD  %s: evidence file for a property that is not claimed" % pid)
    print("audit: %d claimed, %d problem(s)" % (len(claimed), bad))
    return 1 if bad else 0

if __name__ == "__main__":
    sys.exit(main())
