#!/bin/bash
# Runs every claimed check's quick command on the current tree, records exit codes, validates evidence.
cd /verif
out=${1:-/tmp/run_all_quick.log}
: > $out
for id in $(python3 -c "import json;print(' '.join(c['property_id'] for c in json.load(open('MANIFEST.json'))['checks']))"); do
  if [ -n "$ONLY" ] && ! echo " $ONLY " | grep -q " $id "; then continue; fi
  t0=$(date +%s)
  rm -f evidence/$id.json
  ./check $id --tier quick > /tmp/raq_$id.log 2>&1
  rc=$?
  t1=$(date +%s)
  echo "$id rc=$rc wall=$((t1-t0))s $(grep -c 'KNOWN-FINDING' /tmp/raq_$id.log) known-finding lines; $(grep -E 'VIOLATION|INCONCLUSIVE|BROKEN' /tmp/raq_$id.log | head -3 | tr '\n' ' ' | cut -c1-300)" | tee -a $out
done
python3-vt - <<'PY' | tee -a $out
import json, jsonschema, glob
sch = json.load(open('/root/.vp/EVIDENCE.schema.json'))
m = json.load(open('/verif/MANIFEST.json'))
for c in m['checks']:
    f = c['evidence_file']
    try:
        jsonschema.validate(json.load(open(f)), sch)
    except Exception as e:
        print('EVIDENCE-INVALID', f, str(e)[:200])
print('evidence validation done')
PY
