#!/bin/bash
# usage: tools/confirm_seed.sh <ID> <crate> <demo-test-selector...>   (placement is per-ID below)
# Confirms in a scratch worktree: existing tests of the crate pass with the change; the demo passes
# without the change and fails with it. Writes /tmp/confirm/<ID>.result
id="$1"; crate="$2"; shift 2; sel="$@"
src=${SEED_SRC:-/tmp/seed/out}/$id
wt=/tmp/confirm/wt
export CARGO_TARGET_DIR=/tmp/confirm/target CARGO_NET_OFFLINE=true
if [ ! -d $wt ]; then git -C /repo worktree add --detach $wt HEAD >/dev/null 2>&1; fi
cd $wt && git checkout -q --detach $(git -C /repo rev-parse HEAD) && git checkout -q -- . && git clean -fdq -e target
place() {
  case $id in
    C16) mkdir -p programs/store/tests; cp $src/demo/c16_closed_params.rs programs/store/tests/;;
    C17) mkdir -p programs/store/tests; cp $src/demo/c17_market_init.rs programs/store/tests/;;
    C25) cp $src/demo/feed_c25_demo.rs programs/store/src/states/oracle/; printf '\n#[cfg(test)]\n#[path = "feed_c25_demo.rs"]\nmod c25_demo;\n' >> programs/store/src/states/oracle/feed.rs;;
    C31) cat $src/demo/c31_demo.rs >> programs/store/src/states/gt.rs;;
    C33) cat $src/demo/c33_demo.rs >> programs/store/src/instructions/user.rs;;
    C43) cp $src/demo/c43_demo.rs crates/sdk/tests/c43_demo.rs;;
    *) if [ -x $src/demo/place.sh ]; then $src/demo/place.sh; else echo "no placement rule for $id"; exit 3; fi;;
  esac
}
r=/tmp/confirm/$id.result; : > $r
# 1. existing tests with the change (no demo)
git apply $src/patch.diff || { echo "patch does not apply" >> $r; exit 3; }
nice cargo test --offline -p $crate -j 6 $EXISTING_ARGS > /tmp/confirm/$id.existing.log 2>&1; echo "existing_tests_with_change rc=$? $(grep -h 'test result' /tmp/confirm/$id.existing.log | tr '\n' ' ' | cut -c1-400)" >> $r
git checkout -q -- . && git clean -fdq -e target
# 2. demo without the change
place
nice cargo test --offline -p $crate -j 6 $sel > /tmp/confirm/$id.demo_without.log 2>&1; echo "demo_without_change rc=$? $(grep -h 'test result' /tmp/confirm/$id.demo_without.log | tail -n1)" >> $r
# 3. demo with the change
git apply $src/patch.diff
nice cargo test --offline -p $crate -j 6 $sel > /tmp/confirm/$id.demo_with.log 2>&1; echo "demo_with_change rc=$? $(grep -h 'test result' /tmp/confirm/$id.demo_with.log | tail -n1)" >> $r
git checkout -q -- . && git clean -fdq -e target
cat $r
