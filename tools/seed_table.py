#!/usr/bin/env python3
"""Regenerates the seeded-changes table in DESIGN.md from /verif/seeded/*/meta.json."""
import json, glob, os, re
rows = []
for d in sorted(glob.glob('/verif/seeded/*')):
    m = json.load(open(d + '/meta.json'))
    cr = m.get('check_result', {})
    def cell(x):
        return str(x).replace('|', '/').replace('\n', ' ')[:400]
    rows.append('| %s | %s | %s | **%s** — %s |' % (os.path.basename(d), cell(m.get('summary', '')), cell(m.get('needs', '')), cr.get('verdict', '?'), cell(cr.get('detail', ''))))
p = '/verif/DESIGN.md'
s = open(p).read()
head = '| seed | change | needs | result |\n|---|---|---|---|\n'
new = 'SEEDED-TABLE-BEGIN\n\n' + head + '\n'.join(rows) + '\n\nSEEDED-TABLE-END'
s = re.sub(r'SEEDED-TABLE-BEGIN.*?SEEDED-TABLE-END', lambda _: new, s, flags=re.S)
open(p, 'w').write(s)
print(len(rows), 'rows')
