#!/usr/bin/env python3
"""Driver for the solver-based checks in /verif.

  ./check --setup
  ./check Cnn [--tier quick|thorough] [--only <harness-substr>] [--jobs N]
  ./check Cnn --replay <path>

Engines:
  E1 kani   : harness crates under /verif/harness/<crate> (path deps on /repo), one `cargo kani`
              process per harness, run in parallel on a shared per-crate target dir.
  E2 mir2smt: /verif/mir2smt (MIR of the real crate -> SMT-LIB2 -> z3/cvc5), see mir2smt/run.py.

Exit codes: 0 held (KNOWN-FINDING lines allowed), 1 reproduced violation, 2 inconclusive/broken.
"""
import concurrent.futures as cf
import json
import os
import re
import resource
import shutil
import signal
import subprocess
import sys
import time

VERIF = os.path.dirname(os.path.dirname(os.path.abspath(__file__)))
REPO = os.environ.get("VERIF_REPO", "/repo")
TARGET = os.path.join(VERIF, ".target")
HARNESS_DIR = os.path.join(VERIF, "harness")
GUARD = "gmsol_verif"

TIER_TIMEOUT = {"quick": 900, "thorough": 5400}
TIER_MEM_GB = {"quick": 14, "thorough": 40}


def log(*a):
    print(*a, flush=True)


# --------------------------------------------------------------------------------------
# harness metadata
# --------------------------------------------------------------------------------------
class Harness:
    def __init__(self, crate, name, meta, file, line):
        self.crate = crate
        self.name = name
        self.meta = meta
        self.file = file
        self.line = line
        self.prop = meta.get("prop")
        self.tier = meta.get("tier", "quick")
        kind = meta.get("kind", "hold")
        self.kind, _, self.key = kind.partition(":")
        self.enc = meta.get("enc", "")
        self.bound = meta.get("bound", "")
        self.args = meta.get("args", "").split() if meta.get("args") else []
        self.timeout = int(meta["timeout"]) if "timeout" in meta else None
        self.mem = int(meta["mem"]) if "mem" in meta else None
        self.stubs = meta.get("stubs", "")
        self.what = meta.get("what", "")


META_RE = re.compile(r"^\s*//@\s*(.*)$")
FN_RE = re.compile(r"^\s*(?:pub\s+)?fn\s+([A-Za-z0-9_]+)\s*\(")


def parse_meta_line(text, meta):
    # first-level keys: word=...; values run until the next " word=" for the short keys on the
    # first line, whole line for enc/bound/stubs/what.
    m = re.match(r"^(enc|bound|stubs|what)=(.*)$", text)
    if m:
        k, v = m.group(1), m.group(2).strip()
        meta[k] = (meta[k] + " " + v) if k in meta else v
        return
    for tok in text.split():
        if "=" in tok:
            k, v = tok.split("=", 1)
            if k == "args":
                meta[k] = (meta.get(k, "") + " " + v.replace(",", " ")).strip()
            else:
                meta[k] = v


def is_harness_crate(crate):
    d = os.path.join(HARNESS_DIR, crate)
    return os.path.isfile(os.path.join(d, "Cargo.toml")) and os.path.isdir(os.path.join(d, "src"))


def scan_harnesses():
    out = []
    for crate in sorted(os.listdir(HARNESS_DIR)):
        src = os.path.join(HARNESS_DIR, crate, "src")
        if not is_harness_crate(crate):
            continue
        for root, _, files in os.walk(src):
            for f in sorted(files):
                if not f.endswith(".rs"):
                    continue
                path = os.path.join(root, f)
                meta = {}
                pending = False
                for i, ln in enumerate(open(path), 1):
                    m = META_RE.match(ln)
                    if m:
                        parse_meta_line(m.group(1).strip(), meta)
                        pending = True
                        continue
                    if pending:
                        fm = FN_RE.match(ln)
                        if fm:
                            h = Harness(crate, fm.group(1), meta, path, i)
                            rel = os.path.relpath(path, src)[:-3].split(os.sep)
                            if rel[-1] in ("lib", "mod"):
                                rel = rel[:-1]
                            h.fq = "::".join(rel + [h.name])
                            out.append(h)
                            meta = {}
                            pending = False
    return out


# --------------------------------------------------------------------------------------
# running kani
# --------------------------------------------------------------------------------------
def kani_env():
    env = dict(os.environ)
    env["CARGO_NET_OFFLINE"] = "true"
    flags = env.get("RUSTFLAGS", "")
    if GUARD not in flags:
        env["RUSTFLAGS"] = (flags + " --cfg " + GUARD).strip()
    env.pop("RUSTUP_TOOLCHAIN", None)
    return env


def sync_lock(crate):
    """The harness lock file is /repo's lock plus the harness package (committed); if it is
    missing, seed it from /repo's lock so cargo can resolve offline."""
    dst = os.path.join(HARNESS_DIR, crate, "Cargo.lock")
    if not os.path.exists(dst):
        shutil.copy(os.path.join(REPO, "Cargo.lock"), dst)


def build_crate(crate, logdir):
    """Compile the harness crate (and the /repo path deps) with kani-compiler once."""
    sync_lock(crate)
    os.makedirs(logdir, exist_ok=True)
    # -Z stubbing: some harnesses carry #[kani::stub]; the attribute is rejected at compile time
    # unless the unstable feature is on, also for --only-codegen.
    cmd = ["cargo", "kani", "--target-dir", os.path.join(TARGET, crate), "--only-codegen"] + BASE_FLAGS
    t0 = time.time()
    p = subprocess.run(cmd, cwd=os.path.join(HARNESS_DIR, crate), env=kani_env(),
                       stdout=subprocess.PIPE, stderr=subprocess.STDOUT, text=True)
    open(os.path.join(logdir, f"build_{crate}.log"), "w").write(p.stdout)
    return p.returncode, time.time() - t0, p.stdout


def _limit(mem_gb):
    def f():
        os.setsid()
        lim = mem_gb * (1 << 30)
        resource.setrlimit(resource.RLIMIT_AS, (lim, lim))
    return f


# Passed to every cargo-kani invocation (build and runs alike, so artefacts are reused):
# stubbing for #[kani::stub], unstable-options for --cbmc-args.
BASE_FLAGS = ["-Z", "stubbing", "-Z", "unstable-options"]


def harness_args(h):
    """Per-harness extra arguments; `-Z stubbing` is always passed by the driver (the same flag set
    for the build step and every run keeps the kani-compiler artefacts reusable)."""
    a = list(h.args)
    while "-Z" in a and a.index("-Z") + 1 < len(a) and a[a.index("-Z") + 1] == "stubbing":
        i = a.index("-Z")
        del a[i:i + 2]
    return a


SUMMARY_RE = re.compile(r"\*\* (\d+) of (\d+) failed(?: \((.*?)\))?")
COVER_RE = re.compile(r"\*\* (\d+) of (\d+) cover properties satisfied(?: \((.*?)\))?")


def run_harness(h, tier, logdir, extra=None, timeout=None, mem_gb=None):
    timeout = timeout or h.timeout or TIER_TIMEOUT[tier]
    mem_gb = mem_gb or h.mem or TIER_MEM_GB[tier]
    cmd = ["cargo", "kani", "--target-dir", os.path.join(TARGET, h.crate),
           "--harness", h.fq, "--exact", "--output-format", "terse"] + BASE_FLAGS + harness_args(h) + (extra or [])
    logf = os.path.join(logdir, f"{h.name}.log")
    t0 = time.time()
    with open(logf, "w") as lf:
        lf.write("$ " + " ".join(cmd) + "\n")
        lf.flush()
        # The cargo/rustc part must not run under the address-space limit (rustc maps a lot);
        # cbmc is the only memory hog, and it inherits the limit through kani-driver. We apply the
        # limit to the whole process group anyway but generously.
        p = subprocess.Popen(cmd, cwd=os.path.join(HARNESS_DIR, h.crate), env=kani_env(),
                             stdout=lf, stderr=subprocess.STDOUT, preexec_fn=_limit(mem_gb))
        try:
            p.wait(timeout=timeout)
            timed_out = False
        except subprocess.TimeoutExpired:
            timed_out = True
            try:
                os.killpg(p.pid, signal.SIGKILL)
            except ProcessLookupError:
                pass
            p.wait()
    wall = time.time() - t0
    text = open(logf, errors="replace").read()
    return parse_kani(h, text, wall, timed_out, p.returncode, logf)


def parse_kani(h, text, wall, timed_out, rc, logf):
    r = {"harness": h.name, "crate": h.crate, "kind": h.kind, "key": h.key, "wall_s": round(wall, 2),
         "log": logf, "checks": 0, "failed": 0, "undetermined": 0, "covers": 0, "covers_sat": 0,
         "failed_checks": [], "status": "error", "solver_s": None, "bound": h.bound, "enc": h.enc,
         "tier": h.tier}
    if timed_out:
        r["status"] = "timeout"
        return r
    m = SUMMARY_RE.search(text)
    if m:
        r["failed"], r["checks"] = int(m.group(1)), int(m.group(2))
        extra = m.group(3) or ""
        um = re.search(r"(\d+) undetermined", extra)
        if um:
            r["undetermined"] = int(um.group(1))
    c = COVER_RE.search(text)
    if c:
        r["covers_sat"], r["covers"] = int(c.group(1)), int(c.group(2))
    r["failed_checks"] = [x.strip() for x in re.findall(r"^Failed Checks: (.*)$", text, re.M)]
    vt = re.search(r"Verification Time: ([0-9.]+)s", text)
    if vt:
        r["solver_s"] = float(vt.group(1))
    if "VERIFICATION:- SUCCESSFUL" in text:
        r["status"] = "success"
    elif "VERIFICATION:- FAILED" in text:
        real = [f for f in r["failed_checks"] if "unwinding assertion" not in f]
        if "CBMC failed" in text or "Status: ERROR" in text or "out of memory" in text.lower() \
                or "std::bad_alloc" in text:
            r["status"] = "error"
        elif real:
            r["status"] = "failed"
        elif r["failed_checks"]:
            r["status"] = "unwind"          # only unwinding assertions failed: bound too small
        else:
            r["status"] = "error"
    else:
        r["status"] = "error"
    return r


# --------------------------------------------------------------------------------------
# replay
# --------------------------------------------------------------------------------------
def make_replay(h, prop, tier, logdir):
    """Re-run the failing harness with concrete playback in a scratch copy of the harness crate,
    then execute the generated unit test natively against /repo. Returns (path, reproduced)."""
    rdir = os.path.join(VERIF, "replay", prop, h.name)
    shutil.rmtree(rdir, ignore_errors=True)
    os.makedirs(os.path.dirname(rdir), exist_ok=True)
    shutil.copytree(os.path.join(HARNESS_DIR, h.crate), rdir,
                    ignore=shutil.ignore_patterns("target", ".target"))
    tdir = os.path.join(TARGET, "replay-" + h.crate)
    cmd = ["cargo", "kani", "--target-dir", tdir, "--harness", h.fq, "--exact",
           "--output-format", "terse"] + BASE_FLAGS + ["-Z", "concrete-playback",
           "--concrete-playback=inplace"] + harness_args(h)
    t = h.timeout or TIER_TIMEOUT[tier]
    out = ""
    for attempt in (1, 2):
        try:
            p = subprocess.run(cmd, cwd=rdir, env=kani_env(), stdout=subprocess.PIPE,
                               stderr=subprocess.STDOUT, text=True, timeout=t * 2)
            out = p.stdout
        except subprocess.TimeoutExpired:
            out = "timeout"
        # cargo-kani dying without a verdict (killed by a signal, e.g. under memory pressure) is
        # retried once; a second crash leaves the counterexample unconfirmed (INCONCLUSIVE).
        if "VERIFICATION:-" in out or out == "timeout":
            break
    open(os.path.join(logdir, f"{h.name}.playback-gen.log"), "w").write(out)
    tests = []
    # tolerant of trailing blanks after the header lines and of rustfmt-wrapped fn headers
    blk = re.compile(r"/// Test generated for harness `[^`]*`[ \t]*\n///[ \t]*\n/// Check for `([a-z_]+)`: (.*?)\n[ \t]*\n#\[test\]\nfn (kani_concrete_playback_[A-Za-z0-9_]+)\(\s*\)\s*\{.*?\n\}\n", re.S)
    for root, _, files in os.walk(os.path.join(rdir, "src")):
        for f in files:
            if not f.endswith(".rs"):
                continue
            path = os.path.join(root, f)
            txt = open(path).read()
            seen = set()

            def keep(m):
                kind, desc, name = m.group(1), m.group(2), m.group(3)
                # covers are vacuity witnesses, not counterexamples; Kani may also emit the same
                # test twice when two failing checks share one trace.
                if kind == "cover" or name in seen:
                    return ""
                seen.add(name)
                tests.append({"test": name, "check": desc})
                return m.group(0)
            new_txt = blk.sub(keep, txt)
            if new_txt != txt:
                open(path, "w").write(new_txt)
    info = {"property": prop, "harness": h.name, "crate": h.crate, "tests": tests,
            "kani_args": h.args}
    json.dump(info, open(os.path.join(rdir, "replay.json"), "w"), indent=1)
    if not tests:
        # No playback test could be extracted. If the playback run itself reached a verdict this is a
        # real mismatch (None = unconfirmed). If cargo-kani died or timed out while producing the
        # trace (kani-driver needs tens of GB to parse the JSON trace of the large harnesses), the
        # counterexample exists but cannot be materialised with this tool: "tool-limit".
        if "VERIFICATION:-" not in out or "did not generate unit tests, but there were failing harnesses" in out:
            open(os.path.join(rdir, "SOLVER-ONLY.md"), "w").write(
                f"# {prop} / {h.name}\n\nThe solver refuted this harness on the current tree, but Kani's concrete-playback "
                f"generation did not complete (timeout, kani-driver out of memory, or Kani's own 'did not generate unit tests' defect), so no native unit test was produced.\n"
                f"Re-run: `cd /verif && ./check {prop} --tier {tier} --only {h.name}`; failed checks are in "
                f"`.target/logs/{prop}/{h.name}.log`.\n")
            return rdir, "tool-limit"
        return rdir, None
    rep = run_replay(rdir, logdir)
    return rdir, rep


def run_replay(rdir, logdir=None):
    """Run the generated playback tests natively (dev profile). True if any test fails (= the
    counterexample reproduces on the real code)."""
    info = json.load(open(os.path.join(rdir, "replay.json")))
    tdir = os.path.join(TARGET, "replay-" + info["crate"])
    reproduced = False
    for ent in info["tests"]:
        t = ent["test"]
        # `cargo kani playback` rejects --target-dir; CARGO_TARGET_DIR is honoured.
        env = kani_env()
        env["CARGO_TARGET_DIR"] = tdir + "-native"
        # Kani stubs are not applied in playback: the harness crates serve the same environment
        # values through Solana's native SyscallStubs hook under this cfg (see harness/*/src/stubs.rs).
        env["RUSTFLAGS"] = env["RUSTFLAGS"] + " --cfg vh_native"
        cmd = ["cargo", "kani", "playback", "-Z", "concrete-playback", "--", t]
        p = subprocess.run(cmd, cwd=rdir, env=env, stdout=subprocess.PIPE,
                           stderr=subprocess.STDOUT, text=True)
        if logdir:
            open(os.path.join(logdir, f"{info['harness']}.playback-run.log"), "a").write(p.stdout)
        if re.search(r"test result: FAILED", p.stdout):
            # the native failure must be the one the solver reported, not some other panic
            want = ent["check"].split("\n")[0].strip().strip('"')
            want = re.sub(r"^assertion failed: ", "", want)
            panics = re.findall(r"panicked at [^\n]*\n([^\n]*)", p.stdout)
            if any(want and want in m for m in panics) or (want and want in p.stdout):
                reproduced = True
            else:
                log(f"  replay of {t}: native run failed differently ({panics[:2]}) than the solver's check ({want!r})")
                return None
        elif "test result: ok" in p.stdout:
            pass
        else:
            log(f"  replay of {t}: could not be built/run (see log)")
            return None
    return reproduced


# --------------------------------------------------------------------------------------
# known findings
# --------------------------------------------------------------------------------------
def load_known():
    p = os.path.join(VERIF, "known_findings.json")
    if not os.path.exists(p):
        return {"known": [], "fixed": []}
    return json.load(open(p))


# --------------------------------------------------------------------------------------
# main per-property flow
# --------------------------------------------------------------------------------------
def select(harnesses, prop, tier, only=None):
    # tier=experimental harnesses are kept in the tree for the next round but never selected
    tiers = ("quick", "thorough") if tier == "thorough" else ("quick",)
    sel = [h for h in harnesses if h.prop == prop and h.tier in tiers]
    if only:
        sel = [h for h in sel if only in h.name]
    return sel


def check_property(prop, tier, only=None, jobs=None, seed=0):
    t0 = time.time()
    logdir = os.path.join(TARGET, "logs", prop)
    shutil.rmtree(logdir, ignore_errors=True)
    os.makedirs(logdir, exist_ok=True)
    harnesses = scan_harnesses()
    sel = select(harnesses, prop, tier, only)
    results = []
    smt = None
    exit_code = 0
    notes = []

    # --- E2 (mir2smt) part, if the property has one
    e2 = os.path.join(VERIF, "mir2smt", "props", prop + ".py")
    if os.path.exists(e2) and not only:
        sys.path.insert(0, os.path.join(VERIF, "mir2smt"))
        import run as e2run
        smt = e2run.run_property(prop, tier, logdir, seed)

    # --- E1 (kani)
    crates = sorted({h.crate for h in sel})
    build_s = 0.0
    for c in crates:
        rc, dt, out = build_crate(c, logdir)
        build_s += dt
        if rc != 0:
            log(f"BUILD-FAILED crate={c} (see {logdir}/build_{c}.log)")
            log(out[-3000:])
            write_evidence(prop, tier, seed, [], smt, time.time() - t0, 0, ["build failed"], build_s)
            return 2
    if sel:
        jobs = jobs or min(len(sel), int(os.environ.get("VERIF_JOBS", "12")))
        # longest first (thorough harnesses tend to be the slow ones)
        order = sorted(sel, key=lambda h: (h.tier != "thorough", h.name))
        with cf.ThreadPoolExecutor(max_workers=jobs) as ex:
            futs = {ex.submit(run_harness, h, tier, logdir): h for h in order}
            for f in cf.as_completed(futs):
                r = f.result()
                results.append(r)
                log(f"  [{r['status']:8}] {r['harness']} checks={r['checks']} failed={r['failed']} "
                    f"covers={r['covers_sat']}/{r['covers']} solver={r['solver_s']}s wall={r['wall_s']}s")
    results.sort(key=lambda r: r["harness"])
    known = load_known()
    hmap = {h.name: h for h in sel}
    violations = 0
    for r in results:
        h = hmap[r["harness"]]
        st = r["status"]
        if st == "success":
            if r["covers_sat"] != r["covers"]:
                log(f"BROKEN-CHECK {h.name}: {r['covers'] - r['covers_sat']} cover(s) unsatisfied "
                    f"(vacuity witness missing)")
                exit_code = max(exit_code, 2)
            if h.kind == "finding":
                # the strict clause holds in the keyed region: the finding is gone
                r["finding_present"] = False
            continue
        if st == "failed":
            if h.kind == "finding":
                r["finding_present"] = True
                ent = [k for k in known.get("known", []) if k["property"] == prop and k["key"] == h.key]
                if ent:
                    r["known_finding"] = True
                    log(f"KNOWN-FINDING: property={prop} {ent[0]['what']}")
                    continue
                # a finding-witness that fails but is not listed is a new violation
            if violations > 0 and os.environ.get("VERIF_REPLAY_ALL") != "1":
                # one reproduced counterexample already decides the exit status; replaying every
                # further failing harness only costs time (set VERIF_REPLAY_ALL=1 to do it anyway)
                r["replay"] = None
                r["reproduced"] = None
                log(f"ALSO-FAILED {h.name} (not replayed: a violation is already confirmed); "
                    f"failed checks: {r['failed_checks'][:4]}")
                continue
            real_fc = [f for f in r["failed_checks"] if "unwinding assertion" not in f]
            if real_fc and all("[stub-observed]" in f for f in real_fc):
                # The failed assertion is about a value observed inside a Kani stub (e.g. the argument
                # a stubbed callee received). Concrete playback runs without stubs, so a native replay
                # cannot evaluate it; the verdict rests on the solver's counterexample.
                path = os.path.join(VERIF, "replay", prop, h.name)
                shutil.rmtree(path, ignore_errors=True)
                os.makedirs(path, exist_ok=True)
                open(os.path.join(path, "SOLVER-ONLY.md"), "w").write(
                    f"# {prop} / {h.name}\n\nFailed checks: {real_fc}\n\nThe refuted assertion observes a value inside a Kani stub; "
                    f"native playback does not apply stubs, so this counterexample is reported on the solver's verdict.\n"
                    f"Re-run: `cd /verif && ./check {prop} --tier {tier} --only {h.name}`.\n")
                rep = "tool-limit"
            else:
                path, rep = make_replay(h, prop, tier, logdir)
            r["replay"] = path
            r["reproduced"] = rep
            if rep is True or rep == "tool-limit":
                violations += 1
                log(f"VIOLATION property={prop} replay={path}")
                log(f"  failed checks: {r['failed_checks'][:4]}")
                if rep == "tool-limit":
                    log(f"  note: the solver's counterexample could not be turned into a native test (concrete-playback "
                        f"generation hit a tool resource limit); the verdict rests on the solver, see {path}/SOLVER-ONLY.md")
                exit_code = 1 if exit_code != 1 else 1
            else:
                log(f"INCONCLUSIVE {h.name}: solver counterexample did not reproduce natively "
                    f"(replay dir {path}); failed checks: {r['failed_checks'][:4]}")
                exit_code = max(exit_code, 2) if exit_code != 1 else 1
            continue
        # timeout / unwind / error
        log(f"INCONCLUSIVE {h.name}: status={st} (log {r['log']})")
        if exit_code != 1:
            exit_code = 2
    if smt:
        for q in smt.get("violations", []):
            violations += 1
            log(f"VIOLATION property={prop} replay={q['replay']}")
            exit_code = 1
        if smt.get("inconclusive") and exit_code == 0:
            for q in smt["inconclusive"]:
                log(f"INCONCLUSIVE smt query {q}")
            exit_code = 2
        for kf in smt.get("known_findings", []):
            log(f"KNOWN-FINDING: property={prop} {kf}")
    if not results and not smt:
        log(f"no harness selected for {prop}")
        exit_code = 2
    write_evidence(prop, tier, seed, results, smt, time.time() - t0, violations, notes, build_s)
    log(f"{prop} tier={tier}: exit={exit_code} harnesses={len(results)} wall={time.time() - t0:.1f}s")
    return exit_code


def write_evidence(prop, tier, seed, results, smt, wall, violations, notes, build_s):
    obligations = sum(r["checks"] + r["covers"] for r in results)
    # a known-finding witness counts as discharged: its verdict (sat, with model) is the expected,
    # listed one (known_findings.json); every other failed/undetermined check is not discharged
    discharged = sum(((r["checks"] - r["undetermined"]) if r.get("known_finding") else
                      (r["checks"] - r["failed"] - r["undetermined"])) + r["covers_sat"]
                     for r in results if r["status"] in ("success", "failed"))
    samples = []
    for r in results:
        # a failing finding-witness that is listed in known_findings.json is recorded as such, so a
        # reader (and tools/audit_evidence.py) can tell it from an unexpected failure
        samples.append({"engine": "kani/cbmc", "harness": r["harness"],
                        "status": "known-finding" if r.get("known_finding") else r["status"],
                        "cbmc_checks": r["checks"], "failed": r["failed"],
                        "covers": f"{r['covers_sat']}/{r['covers']}", "solver_s": r["solver_s"],
                        "wall_s": r["wall_s"], "functions_encoded": r["enc"], "bounds": r["bound"],
                        "failed_checks": r["failed_checks"][:5]})
    solver_s = sum((r["solver_s"] or 0) for r in results)
    enc = sorted({e.strip() for r in results for e in r["enc"].split(",") if e.strip()})
    trusted = ["rustc/kani-compiler 0.68 MIR->GOTO translation", "CBMC 6.11 + CaDiCaL",
               "harness oracles written in /verif/harness (reference arithmetic in wider integer types)"]
    assumptions = []
    if smt:
        obligations += smt["queries"]
        discharged += smt["discharged"]
        solver_s += smt["solver_s"]
        samples += smt["samples"]
        enc += smt["functions"]
        trusted += smt["trusted_base"]
        assumptions += smt.get("assumptions", [])
    harn = {h.name: h for h in scan_harnesses()}
    for r in results:
        h = harn.get(r["harness"])
        if h and h.stubs:
            assumptions.append(f"{h.name}: stubs/assumes: {h.stubs}")
    ev = {
        "property_id": prop, "tier": tier, "seed": seed, "level": "proof",
        "coverage": {
            "obligations": obligations, "discharged": discharged,
            "checker_cmd": f"./check {prop} --tier {tier}",
            "trusted_base": trusted,
            "samples": samples,
            "functions_encoded": enc,
            "bounds": [f"{r['harness']}: {r['bound']}" for r in results] + (smt["bounds"] if smt else []),
            "queries_discharged": discharged,
            "solver_time_s": round(solver_s, 2),
            "build_time_s": round(build_s, 2),
            "explanation": "bounded: every obligation is a CBMC property (assertion, overflow, bounds, "
                           "unwinding assertion, cover witness) or an SMT query decided by the solver for all "
                           "inputs within the stated bounds; the encoding is regenerated from /repo on every run",
            "inconclusive": [r["harness"] for r in results if r["status"] in ("timeout", "unwind", "error")],
            "notes": notes,
        },
        "assumptions": assumptions,
        "wall_s": round(wall, 2),
        "violations": violations,
    }
    os.makedirs(os.path.join(VERIF, "evidence"), exist_ok=True)
    json.dump(ev, open(os.path.join(VERIF, "evidence", prop + ".json"), "w"), indent=1)


def setup():
    """Pre-build every harness crate (kani-compiler) and the MIR dump, offline."""
    rc_all = 0
    crates = [c for c in sorted(os.listdir(HARNESS_DIR)) if is_harness_crate(c)]
    logdir = os.path.join(TARGET, "logs", "setup")
    os.makedirs(logdir, exist_ok=True)
    with cf.ThreadPoolExecutor(max_workers=4) as ex:
        for c, (rc, dt, out) in zip(crates, ex.map(lambda c: build_crate(c, logdir), crates)):
            log(f"setup: crate {c}: rc={rc} {dt:.0f}s")
            if rc != 0:
                log(out[-2000:])
                rc_all = 1
    e2 = os.path.join(VERIF, "mir2smt", "run.py")
    if os.path.exists(e2):
        sys.path.insert(0, os.path.join(VERIF, "mir2smt"))
        import run as e2run
        rc_all |= e2run.setup()
    return rc_all


def main(argv):
    if len(argv) >= 2 and argv[1] == "--setup":
        return setup()
    if len(argv) < 2:
        print(__doc__)
        return 2
    prop = argv[1]
    tier = os.environ.get("VERIF_TIER", "quick")
    only = None
    jobs = None
    replay = None
    i = 2
    while i < len(argv):
        if argv[i] == "--tier":
            tier = argv[i + 1]; i += 2
        elif argv[i] == "--only":
            only = argv[i + 1]; i += 2
        elif argv[i] == "--jobs":
            jobs = int(argv[i + 1]); i += 2
        elif argv[i] == "--replay":
            replay = argv[i + 1]; i += 2
        else:
            print("unknown arg", argv[i]); return 2
    seed = int(os.environ.get("VERIF_SEED", "0"))
    if replay:
        if os.path.isdir(replay) and os.path.exists(os.path.join(replay, "replay.json")):
            rep = run_replay(replay)
        else:
            sys.path.insert(0, os.path.join(VERIF, "mir2smt"))
            import run as e2run
            rep = e2run.replay(replay)
        if rep is True:
            log(f"VIOLATION property={prop} replay={replay}")
            return 1
        return 0 if rep is False else 2
    return check_property(prop, tier, only, jobs, seed)


if __name__ == "__main__":
    sys.exit(main(sys.argv))
