# Claims of the `model` area (harness crate /verif/harness/model).  `BOUNDED` is predefined by the loader.
#
# Width-reduced instantiation: the generic model source of /repo/crates/model is compiled at
# T=u8/DECIMALS=1 (UNIT 10), T=u16/DECIMALS=2 (UNIT 100) or T=u32/DECIMALS=4 through the cfg(gmsol_verif)
# narrow number impls (hook 7c2f4c3); oracles are exact integer computations in a wider type.

_TRUST = ("Trusted: kani-compiler + CBMC/CaDiCaL; the cfg(gmsol_verif) narrow-width Unsigned/MulDiv/FixedPointOps impls "
          "(hook 7c2f4c3, same bodies as the u64 impl); the exact reference computations written in the harness file. "
          "Defects that exist only in the u64/u128 impl blocks (the ruint-backed u128 mul_div, rust_decimal powers) are outside "
          "this claim (C01's subject). ")

CLAIMED = {
    "C02": dict(
        text=BOUNDED + "the real FeeParams::{fee, receiver_fee, apply_fees, base_position_fees -> order_fees}, LiquidationFeeParams::fee and the "
             "PositionFees accessors are executed at T=u16/DECIMALS=2 for every amount, every fee / receiver / discount factor, discount present or "
             "absent and all three balance-change kinds. Decided at u16 for all values: with every factor <= 100% apply_fees succeeds, "
             "net + pool share + receiver share == gross amount exactly, fee <= amount, a discount never raises the fee, the undiscounted fee is "
             "floor(amount*factor/UNIT) with the positive factor for Improved and the negative factor for Worsened/Unchanged, the discount is "
             "floor(fee0*discount/UNIT), the receiver share is floor(fee*receiver_factor/UNIT); for ANY factor values (also above 100%) a returned "
             "result is still an exact split with fee <= amount, i.e. an oversized fee makes apply_fees fail; order fees: fee value as above, "
             "fee amount = floor(value / min collateral price) split exactly into pool and receiver shares, zero prices rejected; liquidation fee: "
             "value = floor(size*factor/UNIT), amount = ceil(value / min collateral price), receiver share floor. Decided at T=u8/DECIMALS=1 for all "
             "values: apply_fees, order fees and the liquidation fee agree with the exact composed reference including the exact failure condition, "
             "and PositionFees::{for_receiver, for_pool, total_cost_excluding_funding, total_cost_amount} add up "
             "(pool + receiver == total cost) with order, borrowing and liquidation fees present. Thorough adds the composed references at u16 and "
             "the split at T=u32/DECIMALS=4.",
        note=_TRUST + "Order fees are charged on the position's collateral, not deducted from size_delta_usd: with a fee factor above 100% "
             "FeeParams::fee / order_fees return a fee value above size_delta_usd without failing (only apply_fees has a gross amount to fail against); "
             "this is stated, not asserted. checked_round_up_div fails when value + price overflows T (a failure, not a wrong value).",
        technique="Kani/CBMC symbolic execution of the real generic fee code at reduced width, SAT-decided equivalence with exact references",
        design="C02"),
    "C12": dict(
        text=BOUNDED + "the real UpdateFundingState::{next_funding_factor_per_second, next_funding_amount_per_size, execute}, FundingFeeParams::change, "
             "Unsigned::bound_magnitude and PositionExt::pending_funding_fees. Decided: FundingFeeParams::change equals the skew/threshold rule "
             "for every u64/i64 input (production width, no bound). At T=u16/DECIMALS=2, for every long/short open interest > 0, every funding "
             "parameter, stored factor and duration (exponent 0 or 1*UNIT): the funding factor per second and the stored next factor have magnitude "
             "<= max_factor_per_second; in adaptive mode (increase_factor_per_second != 0) the magnitude is >= min_factor_per_second (min > max is an "
             "error), equals the stored factor clamped to [min, max] and the payer follows its sign; in non-adaptive mode the larger side pays and "
             "nothing is stored. At T=u8/DECIMALS=1 (exponent 0..2*UNIT) the whole function agrees with an exact reference including the exact failure "
             "condition (increase / decrease / decrease-to-signum / no-change branches, both caps). Thorough tier only (10 min, too slow for quick): one real "
             "execute() from an arbitrary funding state at u8 - the four funding-amount-per-size and four claimable-funding-amount-per-size indices never "
             "decrease (also when execute fails midway), move by exactly the reported unsigned deltas, only one side pays and only the other receives, "
             "nothing is charged with an empty side, no other market state is touched (one inductive step, so the indices are monotone over any history). "
             "pending_funding_fees (u8 all values; u16 with "
             "the adjustment fixed to 10): amounts are ceil (fee) / floor (claimables) of size*index_diff/(adjustment*UNIT), and a position index ahead "
             "of the market index is an error, never a wrapped value.",
        note=_TRUST + "By-design deviation from the literal text, confirmed by the solver and excluded from the hold harnesses: in non-adaptive mode "
             "(increase_factor_per_second == 0) min_factor_per_second is not applied (as in GMX); the strict clause is asserted inside that region by "
             "c12_min_bound_non_adaptive_u16 (kind=finding:c12_min_not_applied_non_adaptive). Exponents above 2*UNIT and non-integer exponents are "
             "outside the claim; the market/position environment is the plain-struct VMarket/VPosition of the harness crate.",
        technique="Kani/CBMC symbolic execution of the real generic funding code at reduced width (u64 for the comparison-only part), exact reference + one inductive step",
        design="C12"),
    "C14": dict(
        text=BOUNDED + "the real PositionImpactMarketExt::pending_position_impact_pool_distribution_amount and DistributePositionImpact::execute at "
             "T=u16/DECIMALS=2 for every pool amount, minimum, distribution rate and every u64 elapsed time: next <= current; current > min implies "
             "next >= min; a pool at or below the minimum is not distributed; distributed == min(floor(t*rate/UNIT), current - min) exactly and "
             "distributed + next == current; failure exactly when t or t*rate/UNIT is not representable. One real execute() from an arbitrary state "
             "(the post-state is again an arbitrary state, so repeated distribution follows by induction) changes only the pool's long amount and the "
             "distribution clock, to the reported next amount; a failing execute leaves the pool unchanged. Two consecutive executions are additionally "
             "decided end to end at T=u8. Thorough adds T=u32/DECIMALS=4 and two executions at u16.",
        note=_TRUST + "At a narrow width execute also fails when the distributed amount exceeds the signed maximum (to_opposite_signed); "
             "when t*rate/UNIT overflows T the code fails instead of capping at current - min (a liveness remark for the narrow types, irrelevant at u128). "
             "The distribution clock is the VMarket field consumed by just_passed_in_seconds (the on-chain clock implementation is not the subject).",
        technique="Kani/CBMC symbolic execution of the real generic distribution code at reduced width against an exact reference, one inductive step",
        design="C14"),
    "C03": dict(
        text=BOUNDED + "the real PoolDelta::{try_new, try_from_delta_amounts, price_impact}, PriceImpactParams::adjusted_factors, utils::apply_factors "
             "(whole-unit exponents), SwapMarketExt::swap_impact_value and PositionExt::position_price_impact. Decided: adjusted_factors returns "
             "(min(positive, negative), negative) for every u64 pair (production width). At T=u16/DECIMALS=2: try_from_delta_amounts yields exactly "
             "price*amount pool/delta values, |diff| before/after and the same-side/cross-over kind, and fails exactly when a value is not representable "
             "(token prices 0..=15). At T=u8/DECIMALS=1 (UNIT 10), for every USD-value pool (long, short), every signed delta pair, every positive/negative "
             "factor and exponent 0, 1 or 2 units: the impact value and the balance-change kind equal an exact reference (same-side: +-|f*initial^e - f*next^e| "
             "with the capped positive factor for improvements and the negative factor otherwise; cross-over: capped_positive*initial^e - negative*next^e), "
             "including the exact failure condition; hence a change that worsens or leaves the balance never gets a positive impact and a same-side "
             "improvement never a negative one; apply_factors itself equals floor(v^e*f/UNIT) for exponents 0..3 units. Round trip (a change, then its exact "
             "reverse on the resulting pool, both through the real code, exponent 1 and 2 units): total impact <= 1 unit for same-side changes and <= 0 for "
             "cross-over changes. Virtual inventory (exponent 1 unit): swap_impact_value / position_price_impact with the virtual pool never exceed the "
             "value without it, are equal when the real impact is >= 0 or no virtual pool exists, and fail only because of the virtual leg. Thorough adds "
             "exponent 3 units, u16 variants and the exact min(real, virtual) value.",
        note=_TRUST + "By-design deviations from the literal text, confirmed by the solver and excluded only inside their keyed regions: (1) an improving "
             "change that crosses the balance point can receive a negative impact (GMX: the part past the balance point is charged the negative factor) - "
             "c03_improved_cross_over_sign_u8, kind=finding:c03_improved_cross_over_negative; (2) a same-side round trip can total +1 unit because the two "
             "legs floor independently - c03_round_trip_strict_same_side_u8, kind=finding:c03_round_trip_plus_one_unit (the hold harness keeps the bound "
             "<= 1 unit, and <= 0 for cross-overs). Non-integer exponents, exponents above 3 units and widths above u8 for the impact value are outside the claim.",
        technique="Kani/CBMC symbolic execution of the real generic price-impact code at reduced width (u64 for the comparison-only part), SAT-decided equivalence with an exact reference, two-leg round trip",
        design="C03"),
    "C11": dict(
        text=BOUNDED + "the real PositionExt::{pnl_value, size_delta_in_tokens}, Price::pick_price_for_pnl, BaseMarketExt::pnl and MarketUtils::cap_pnl. Decided: "
             "pick_price_for_pnl picks max exactly when is_long == maximize, for every u64 price pair (production width). cap_pnl at T=u16: a positive pnl is "
             "min(pnl, floor(pool_value*max_pnl_factor_for_trader/UNIT)) for the right side, other pnl unchanged. At T=u8/DECIMALS=1 for every position "
             "(size in usd and tokens, both sides), every price and close size: closed tokens are all tokens on a full close, else ceil (long) / floor "
             "(short) of tokens*delta/size; with the trader cap unable to bind (empty market pools) pnl == uncapped pnl == "
             "sign(total)*floor(closed_tokens*|total|/tokens) with total = +-(tokens*price - size) at the price picked against the trader, i.e. a partial "
             "close realises the proportional share of the full-close pnl rounded towards zero; with every liquidity / open-interest pool and the trader "
             "pnl factor symbolic, a full close credits total when the pool pnl is within the cap and floor(cap*total/pool_pnl) otherwise, never more than "
             "the uncapped pnl, and losses are never capped; for two index price ranges p1 <= p2 a full close has uncapped pnl(p1) <= pnl(p2) for longs and "
             ">= for shorts, and the same for the credited pnl wherever the cap does not bind.",
        note=_TRUST + "By-design deviation from the literal text, confirmed by the solver: when the trader pnl cap binds, the credited pnl is "
             "cap*total/pool_pnl and can decrease for a long as the index price rises (the pool pnl grows faster than the position's) - "
             "c11_capped_pnl_monotone_u8, kind=finding:c11_capped_pnl_not_monotone; monotonicity of the credited pnl is asserted only where the cap does not bind. "
             "Monotonicity for partial closes, pnl <= uncapped for partial closes under a binding cap and the two-call proportionality check are thorough-tier "
             "harnesses (u8); u16 variants are thorough/experimental. cap_pnl is reached through the cfg hook verif_cap_pnl (9817d71).",
        technique="Kani/CBMC symbolic execution of the real generic pnl code at reduced width (u64 for the price selection), multiplicative floor/ceil oracles, two-evaluation monotonicity",
        design="C11"),
}
