# Claims decided by engine E2 (/verif/mir2smt: MIR of the real crate -> SMT-LIB2 over Int -> z3, cvc5 cross-check in the thorough tier).
CLAIMED = {
    "C01": dict(
        text=BOUNDED + "at full width with no bound on values (every u64/i64 and every u128/i128 operand): the MIR of the real "
             "<u64|u128 as MulDiv>::{checked_mul_div, checked_mul_div_ceil}, MulDiv::checked_mul_div_with_signed_numerator, "
             "Unsigned::{checked_round_up_div, as_divisor_to_round_up_magnitude_div, bound_magnitude, checked_add_with_signed, checked_sub_with_signed, "
             "checked_mul_with_signed, checked_signed_sub, to_signed, to_opposite_signed} (Self = u64 and u128), utils::{apply_factor, div_to_factor, "
             "div_to_factor_signed, usd_to_market_token_amount, market_token_amount_to_usd} and Fixed::checked_mul (u64/D=9, u128/D=20) is executed symbolically and, "
             "for every function: no overflow/division panic is reachable, no silent U256 wrap is reachable, Some/Ok(r) implies r is exactly the floor / ceiling / "
             "sign-and-magnitude rounding / clamp of the mathematical value (stated without division: r*d <= a < (r+1)*d etc.), and None/Err implies a zero divisor or an "
             "exact result or intermediate that does not fit the type (exact failure condition per function). The repository's own unit-test vectors are forced by "
             "the encoding and a deliberately wrong rounding spec is refuted with a model replayed natively on every run.",
        note="Trusted: rustc's MIR dump of the current tree, the MIR->SMT translator in /verif/mir2smt (validated per run by test vectors and wrong-spec twins), z3 (and cvc5 in "
             "the thorough tier: every unsat is confirmed by both), and the exact integer models of library callees listed in the evidence (core checked_*/abs_diff/div_ceil/"
             "unsigned_abs/TryFrom, num-traits forwarding impls, ruint U256 from/mul/div/div_ceil/try_into modelled as integers modulo 2^256). Error payloads are opaque. "
             "Not decided: Fixed::checked_pow (loop and rust_decimal path), apply_factors/apply_exponent_factor. checked_mul_div_with_signed_numerator and "
             "div_to_factor_signed round the magnitude toward zero (the doc comment says `floor`); several helpers report failure although the exact result would fit "
             "(intermediate a+d overflow in checked_round_up_div, results equal to Signed::MIN): these are failures, not wrong values, and are stated as such in the clauses.",
        technique="symbolic execution of the compiler's MIR of the real functions into SMT-LIB2 over mathematical integers with explicit range conditions, decided by z3 (cvc5 cross-check), counterexamples replayed natively",
        design="C01", engine="mir2smt"),
}
