# Claims of the `perp` area (harness crate /verif/harness/perp): C07, C08, C09, C10, C13.
# All harnesses run the real generic gmsol-model source instantiated at T = u8, DECIMALS = 1
# (UNIT 10; a few also at u16/DECIMALS 2) over the plain-struct market/position of
# harness/perp/src/vmarket.rs. Whole Increase/DecreasePosition::execute do not finish in symbolic
# execution (DESIGN §4); every obligation is decided on the component that establishes it.

_ENV = ("Trusted: kani-compiler + CBMC/CaDiCaL; the narrow-width number impls (hook 7c2f4c3, same bodies as u64); "
        "the environment VMarket/VPosition (plain fields, checked add/sub pools); the reference arithmetic written in the "
        "harnesses (i32 over u8 operands). Width: u8/UNIT 10, so defects that need larger magnitudes or only exist in the "
        "u64/u128 impl blocks are outside. ")

CLAIMED = {
    "C13": dict(
        text=BOUNDED + "component level, T=u8/DECIMALS=1: (a) the real UpdateBorrowingState::execute never lowers the cumulative borrowing "
             "factor of either side (success and failure), writes only the factor pool and the clock, and its report equals the stored "
             "factors, for every factor / open-interest / borrowing-factor parameter / skip flag / elapsed time (other rate inputs fixed in "
             "the quick tier, all symbolic incl. kink model and exponents <= 3 in the thorough tier); (b) the real "
             "PositionMutExt::update_total_borrowing moves the total borrowing of the position's side by exactly "
             "floor(next_size*next_factor/UNIT) - floor(size*factor/UNIT), touches nothing else, and fails only when one of these numbers "
             "does not fit (all u8 and all u16 values); (c) the per-position sum form of the invariant (one explicit position + abstract rest) "
             "is preserved by that settle step; (d) under total_borrowing <= floor(open_interest*cumulative_factor/UNIT) the real "
             "total_pending_borrowing_fees returns exactly floor(OI*next_factor/UNIT) - total_borrowing >= 0 and fails only when the rate or the "
             "product does not fit; (e) the real IncreasePosition::execute, run whole on a nearly concrete state (deposit-only increase of a "
             "50-usd long position; symbolic market factor F, position factor f <= F and total borrowing), settles total borrowing with the "
             "OLD position factor (delta = floor(size*F/UNIT) - floor(size*f/UNIT)) and then stores F in the position.",
        note=_ENV + "The step from the per-position sum B = sum_i floor(s_i*f_i/UNIT), f_i <= F, OI = sum_i s_i (established by (a)-(c) and C07) to "
             "the market-level bound B <= floor(OI*F/UNIT) assumed in (d) is the superadditivity of floor; it is decided by the solver only in "
             "the thorough tier (c13_pending_borrowing_fees_sum_invariant_u8, explicit position + rest, partly concrete rate inputs; the variant "
             "with every rate configuration symbolic does not finish and is tier=experimental). The order 'settle total borrowing, then update "
             "factor and size' inside the actions is decided for IncreasePosition::execute only on the single nearly concrete state of (e) "
             "(quick) and, with borrowing already settled, on the symbolic whole-increase harness of C07 (thorough); for "
             "DecreasePosition::execute it is NOT decided (the whole action runs out of memory in symbolic execution): a reordering there "
             "would not be seen. The value of the borrowing rate itself is not part of the claim.",
        technique="Kani/CBMC symbolic execution of the real borrowing code at u8 width, one inductive step with an abstract rest-of-positions aggregate, exact integer references",
        design="C07/C13"),
    "C07": dict(
        text=BOUNDED + "component level, T=u8/DECIMALS=1 (update_open_interest also at u16): (a) the real PositionMutExt::update_open_interest "
             "(with apply_delta_to_open_interest) moves the open-interest and open-interest-in-tokens slot of the position's side and "
             "collateral token by exactly the given signed deltas, leaves every other pool and the position untouched, enforces the "
             "max-open-interest cap on the new side total, updates a present virtual inventory by the netting rule, and (without virtual "
             "inventory) fails only for range or cap violations; a zero usd delta writes nothing; (b) the real DecreasePosition::try_new / "
             "is_remaining_size_too_small / check_partial_close / check_close (every pool slot, price, threshold, flag, position and order "
             "input symbolic): after the checks the size delta is either unchanged or the full "
             "size, a decrease that stays partial leaves remaining usd size >= the minimum and size_delta_in_tokens < size_in_tokens (so "
             "should_remove cannot be reached by it), a decrease that would zero the tokens is promoted to a full close, and a full close "
             "drops the separate collateral withdrawal; (c) the real IncreasePosition::process_collateral moves the collateral-sum slot by "
             "exactly the returned collateral delta (= deposit minus order, borrowing and funding fees, all symbolic) and nothing but that slot, "
             "the liquidity pool and the claimable-fee pool.",
        note=_ENV + "Quick tier: components only. Thorough tier adds the WHOLE real IncreasePosition::execute (long/long-collateral and "
             "short/short-collateral; all pools, position, deposit, size delta and flat prices symbolic; no fees / impact / thresholds; "
             "~42 min, 13 GB each): on Ok the three pool slots move by exactly the position's own deltas, every other slot is untouched, the "
             "borrowing identity of C13 holds and the position is open on both dimensions. Not decided: the glue inside "
             "DecreasePosition::execute (the should_remove branch zeroing the position, the collateral-sum update of a decrease, the order of "
             "the open-interest update): its whole-action harness runs out of 40 GB during symbolic execution and is kept as "
             "tier=experimental; what is decided for decreases is that the deltas handed to that glue are right ((a), (b)). "
             "update_open_interest ignores the "
             "token delta when the usd delta is zero; the callers pass a zero token delta in that case (increase: get_execution_params; "
             "decrease: size_delta_in_tokens(0) = 0 for a non-empty position).",
        technique="Kani/CBMC symbolic execution of the real open-interest / partial-close / collateral code at u8 width with exact integer references and frame (whole-struct) comparison",
        design="C07/C13"),
    "C09": dict(
        text=BOUNDED + "model part, component level, T=u8/DECIMALS=1: (a) the real PositionExt::will_collateral_be_sufficient equals an exact "
             "reference of the leverage rule (remaining value, max of the open-interest factor and the min collateral factor, floor) for all "
             "inputs; (b) the real PositionExt::check_liquidatable equals an exact reference of the remaining-collateral rule (pnl with the "
             "trader cap, both threshold sets, min collateral value, the three reasons) with fees and price impact configured to zero; "
             "(c) the real DecreasePosition::check_liquidation admits a liquidation order only if that rule (liquidation thresholds, min "
             "collateral value) says liquidatable and answers NotLiquidatable only for a healthy position; other orders always pass; "
             "(d) the real PositionExt::validate returns Ok only for non-zero sizes, size >= the minimum when asked, and a position that "
             "the rule (regular thresholds) calls healthy; it answers Liquidatable only for an unhealthy one.",
        note=_ENV + "Quick tier state space for (b)-(d): position size 100 usd inside an own open-interest slot of 120, symbolic size in tokens, "
             "collateral, own tokens slot, own liquidity side, thresholds, index price with spread and flat token prices, side and collateral "
             "token fixed per harness ((b),(c): long/short-collateral and short/long-collateral; (d): long/long and short/short; the other "
             "combinations of (b) in the thorough tier); all pool slots, prices and the usd size symbolic, and symbolic fees / impact factors "
             "(with the real check_liquidatable as reference), only in the thorough tier. Not decided: that a successful increase / non-removing "
             "decrease ends with validate (whole actions do not finish); the clause 'a liquidation closes the whole position' and the ADL "
             "clause, which live in programs/store/src/ops/order.rs (size_delta >= size requirement, pnl-factor re-check) behind account "
             "loaders and CPIs.",
        technique="Kani/CBMC symbolic execution of the real health / liquidation-gate code at u8 width against an exact integer reference",
        design="C09"),
    "C10": dict(
        text=BOUNDED + "component level, T=u8/DECIMALS=1: (a) the real PositionExt::size_delta_in_tokens closes ceil(tokens*delta/size) tokens of a "
             "long and floor(...) of a short, all tokens on a full close (exact, all values); (b) the real "
             "IncreasePosition::get_execution_params gives a long floor(size/max_price) and a short ceil(size/min_price) tokens and converts "
             "price impact rounding gains down (at the max price) and losses up in magnitude (at the min price) (with and without symbolic impact factors, "
             "impact pool and max positive factor); (c) the real cap_positive_position_price_impact / "
             "cap_negative_position_price_impact equal min(impact, pool*min_price, floor(|size|*factor/UNIT)) resp. max(impact, "
             "-floor(|size|*factor/UNIT)) with the exact difference returned; (d) composition: a position opened from empty through "
             "get_execution_params and valued by the real pnl_value for a full close at the same (spread) prices has pnl <= 0 and "
             "uncapped pnl <= 0, with zero price impact.",
        note=_ENV + "Not decided: the end-to-end statement over fees, price impact round trips (C03), claimable amounts and collateral "
             "(open via IncreasePosition::execute then close via DecreasePosition::execute): two chained whole actions do not finish "
             "symbolic execution. The claim is the rounding-direction and cap obligations the property's anchors name, plus the pnl "
             "composition.",
        technique="Kani/CBMC symbolic execution of the real size/rounding/cap code at u8 width against exact integer references",
        design="C10"),
    "C08": dict(
        text=BOUNDED + "component level, T=u8/DECIMALS=1: (a) each of the seven steps of the real CollateralProcessor (add pnl, add price "
             "impact, pay funding fees, pay negative pnl, pay fees, pay negative impact, pay impact difference), run from arbitrary "
             "intermediate output / secondary output / collateral amounts, conserves each pool token exactly over liquidity pool + "
             "claimable fees + remaining collateral + outputs + claimable collateral; the only amount leaving these holdings is funding "
             "paid in the collateral token, which equals the funding fee unless on_insufficient_funding_fee_payment was called with exactly "
             "the shortfall; (b) IncreasePosition::process_collateral with symbolic order, borrowing and funding fees: deposit == d(collateral sum) + "
             "d(liquidity) + d(claimable fees) + funding paid; (c) funding indices: for any funding value, open interests, price and starting index (packing adjustment 1 and 2) "
             "the amount charged to the whole paying side (pack up, unpack up) is >= value/price >= the amount credited to the whole "
             "receiving side (pack down, unpack down). KNOWN-FINDING fee_credit_rounding: in the fee step, when output and collateral are "
             "exhausted and the unpaid rest floors to zero secondary tokens, pool and fee receiver are credited with the nominal fee; the "
             "hold harness excludes exactly that region and proves excess*collateral_price < secondary_price there.",
        note=_ENV + "Not decided: the global funding residual over many positions and funding periods (needs an invariant relating all "
             "positions' sizes to the per-size indices with accumulated rounding), UpdateFundingState::execute end to end, swaps inside a "
             "decrease, deposits/withdrawals/swaps (C04/C06 area). (c) is the two-aggregate instance; for several positions per side the "
             "per-position ceil/floor only widen the gap (sum of ceils >= ceil of sum, sum of floors <= floor of sum). The fee step is "
             "decided with order fees only (borrowing/liquidation fee components zero).",
        technique="Kani/CBMC symbolic execution of single steps of the real collateral processor and of the funding pack/unpack functions at u8 width with an exact per-token ledger",
        design="C08"),
}
