"""Claims of the `sdk` area (harness crate /verif/harness/sdk). Merged by gen_manifest.py."""

try:
    from manifest_data import BOUNDED  # noqa: F401
except Exception:  # pragma: no cover - standalone import
    BOUNDED = ("bounded proof: every obligation (assertion, arithmetic-overflow, bounds, unwinding assertion, "
               "cover witness, SMT query) is decided by the SAT/SMT solver for all inputs within the stated bounds; "
               "nothing outside the bounds is claimed. ")

CLAIMED = {
    "C43": dict(
        text=BOUNDED + "the real gmsol_sdk::utils::fixed functions (compiled from /repo/crates/sdk through the gmsol-sdk crate, "
             "default features off) run on the real rust_decimal 1.37.2. Decided: "
             "(1) round trip, exact region: for every u128 num <= 2^96-1 (every i128 with |num| <= 2^96-1) and every u8 decimals, "
             "unsigned/signed_fixed_to_decimal returns Some(d) iff decimals <= 28, d is exactly num * 10^-decimals (mantissa and scale "
             "compared) and decimal_to_value / decimal_to_signed_value(d, decimals) returns Ok(num); for every u64 amount and decimals "
             "<= 28 unsigned_amount_to_decimal is exact and decimal_to_amount returns the amount (thorough adds every i64 amount, with "
             "Err for a negative amount / value in the unsigned targets). "
             "(2) no panic and errors instead of wrong values, to-direction: unsigned/signed_fixed_to_decimal for every u128 / i128 and "
             "every u8 decimals never panic (this check found the panic fixed in a64d072); above 96 bits the result is Some exactly when "
             "cut <= decimals <= cut + 28 (cut = ilog10(num) - 27 trailing digits are dropped), with scale decimals - cut and a 28-digit "
             "mantissa, None otherwise; unsigned/signed_value_to_decimal for every u128 / i128 and unsigned/signed_amount_to_decimal for "
             "every u64 / i64 and every u8 decimals never panic (scale 28 and zero exactly below 10^(decimals-28) beyond 28 decimals, zero "
             "above 47, sign kept). "
             "(3) from-direction: decimal_to_signed_value never panics for every Decimal with |mantissa| < 2^32 (quick) / every valid "
             "Decimal with a 96-bit mantissa (thorough), scale <= 28, and every u8 decimals; when the Decimal has no more fraction digits "
             "than `decimals` it is Ok exactly when mantissa * 10^(decimals-scale) fits i128 (thresholds i128::MAX / 10^e; a zero mantissa "
             "is rejected from 67 decimals on) and keeps sign and zero-ness; with more fraction digits it is always Ok, never grows the "
             "magnitude and keeps the sign. "
             "Known by-design deviations from the literal statement, each witnessed by a kind=finding harness inside its region and excluded "
             "from the holds by exactly that region: c43_lossy_rescale (num above 96 bits is cut to its 28 leading digits; amounts with more "
             "than 28 decimals are divided by 10^(decimals-28)) and c43_from_rounds_fraction (a Decimal with more fraction digits than "
             "`decimals` is rounded half-up instead of rejected; witnessed on the sub-region scale = decimals + 1 with a non-zero last digit).",
        note="Trusted: kani-compiler + CBMC/CaDiCaL; unwind 31 covers rust_decimal's rescale loops (<= 29 iterations on 96 bits; unwinding "
             "assertions on). alloc::fmt::format is stubbed to an empty String (error messages are not compared). Not decided (harnesses kept "
             "as tier=experimental because CBMC does not finish 128-bit multiplier-chain equivalences): the exact numeric value of the "
             "compensated product mantissa * 10^(decimals-scale) in decimal_to_* when rescale falls short of the target scale (only its "
             "Ok/Err classification, sign and zero-ness), and the exact digits kept in the lossy region (only the digit count, scale and "
             "Some/None rule). decimal_to_amount / decimal_to_value are decided only on the Decimals produced by the to-direction.",
        technique="Kani/CBMC symbolic execution of the real SDK conversion code on the real rust_decimal, exact integer oracles",
        design="C43"),
}
