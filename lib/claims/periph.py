# Claims of the `periph` area (harness crate /verif/harness/periph): timelock, treasury,
# liquidity-provider, competition. Shape: see /verif/lib/manifest_data.py. BOUNDED is predefined by the loader.

_STUBS = ("Environment stubs used where stated in the harness headers: Clock::get returns an arbitrary clock drawn by the harness; "
          "msg!/format!/error-name/Display and the integer to_string fast path (u128::_fmt, u64::_fmt) render nothing (error texts are never the subject). ")

CLAIMED = {
    "C36": dict(
        text=BOUNDED + "state level only. (1) InstructionHeader::approve on EVERY 224-byte header image, every 32-byte approver key and every i64 clock value: "
             "it succeeds only on a not-yet-approved header and never for the default pubkey; on success exactly the Approved bit, approved_at (= the clock's "
             "unix_timestamp) and the approver field change (byte-exact image comparison), a second approval with any key at any time is refused and changes nothing; "
             "a refusal changes nothing; a never-approved header with empty approver field refuses only the default key. "
             "(2) InstructionHeader::is_executable(delay) equals `approved && now >= approved_at + delay` with the sum computed exactly (saturating at i64::MAX) for every "
             "header image, every u32 delay and every i64 clock value. (3) TimelockConfig::increase_delay on every 304-byte config image and every u32 delta: new delay = "
             "old + delta >= old or, exactly when that does not fit in u32, an error that changes nothing; no other byte of the account moves. "
             "(4) InstructionAccess::to_instruction (the provided method in crates/utils) for buffers of exactly 1 and 2 accounts (3 in the thorough tier) with arbitrary flag "
             "bytes, account/wallet/program keys from a 256-element universe, 2 arbitrary data bytes, wallet present or absent, both values of the mark flag: program id, data, "
             "account order, keys and writable flags are reproduced exactly, is_signer = stored signer flag OR (mark AND key == executor wallet), it fails exactly when the "
             "wallet is needed and unavailable, and under the buffer invariant established by load_and_init_instruction (a stored signer flag only on the executor wallet) "
             "no other account is ever a signer.",
        note="Trusted: kani-compiler + CBMC/CaDiCaL; field offsets of the zero-copy structs restated in the harness (checked against the public accessors). " + _STUBS +
             "OUTSIDE the claim: the role re-check of the approver and the delay check inside unchecked_execute_instruction, cancel/execute closing the buffer (so 'executed or "
             "cancelled buffers cannot run again'), the CPI itself, load_and_init_instruction / load_instruction (AccountInfo plumbing, PDA derivation of the wallet), and "
             "histories of several instructions (each transition is decided from an arbitrary pre-state, which over-approximates every history for the state-level clauses). "
             "to_instruction runs on a harness implementor of InstructionAccess (array-backed); the real InstructionRef::wallet derives a PDA with sha256 and is not executed.",
        technique="Kani/CBMC symbolic execution of the real timelock state transitions on arbitrary account images, exact i128 reference for the delay arithmetic",
        design="C36"),
    "C37": dict(
        text=BOUNDED + "state level only. (1) Config::set_gt_factor / set_buyback_factor on every 368-byte config image whose two factors are <= 10^20 (the invariant, shown preserved) "
             "and every u128 argument: accepted exactly when the argument is <= 10^20 and differs from the stored value, the previous value is returned, only the addressed "
             "factor changes (byte-exact), both stored factors stay <= 10^20. (2) GtBank ledger, banks built as account images with token keys from a 256-element universe, any "
             "u64 balances, any remaining-GT value and flag byte: record_transferred_out succeeds exactly when the amount is 0 or the token is held with balance >= amount, then "
             "the balance drops by exactly the amount, otherwise nothing changes (banks with 0 or 1 token); record_transferred_in credits exactly old + amount or fails without "
             "change exactly on u64 overflow (empty bank with any new token; 1-token bank credited again); confirm_unchecked succeeds exactly once and records the confirmed "
             "total; record_claimed(g) succeeds exactly when g <= remaining and then remaining drops by g (so claims never exceed the confirmed GT; banks with 0 or 2 tokens, "
             "balances untouched). (3) reserve_balances(n, d) on banks with 1 and 2 tokens, balances, n and d below 2^8 (the 2^16 variants do not finish and are kept as tier=experimental): refused without change "
             "exactly when n > d or when d = 0 with a non-zero balance; otherwise every balance becomes exactly floor(balance * n / d) <= balance.",
        note="Trusted: kani-compiler + CBMC/CaDiCaL; GtBank/Config field offsets restated in the harness and checked against the real accessors (c37_bank_layout_matches_accessors). " + _STUBS +
             "In (3) <u128 as MulDiv>::checked_mul_div (ruint U256; its division by a symbolic divisor does not finish under symbolic execution) is replaced by its specification "
             "floor(x*n/d) computed in u64 - its exactness is C01's subject. TOOL LIMITATION that shapes the bounds: with Kani 0.68/CBMC 6.11 a 32-byte key comparison through an element "
             "reference with a symbolic index into an array nested at a non-zero offset of a struct reads wrong bytes; the map's binary search does that as soon as it holds two entries, "
             "so every harness that makes the real code search GtBank.balances uses at most one token, and read-back is done on the account image. A new token inserted into a non-empty "
             "bank is therefore not covered. OUTSIDE the claim: the proportional-claim formula floor(balance*gt/remaining), 'every claimant gets at least the floor share' and 'the last "
             "claim drains the bank' - that expression is written inline in CompleteGtExchange::execute behind token CPIs and is not executed by these harnesses; deposits/withdrawals "
             "through the treasury instructions; histories (one step from an arbitrary state).",
        technique="Kani/CBMC symbolic execution of the real treasury Config/GtBank transitions on account images with exact integer oracles",
        design="C37"),
    "C38": dict(
        text=BOUNDED + "partial. (1) compute_time_weighted_apy equals floor(S / T), S = exact sum over the elapsed seconds of the weekly bucket of that second (weeks past the last bucket "
             "use the last one; overflow-checked reference, stated as q*T <= S < (q+1)*T), for ALL 53 gradients symbolic at once - each in [0, 255] in the quick tier, and in [0, 65535] in the "
             "thorough tier at the four longest durations - at the FIXED elapsed times 1 s, 1 week, 1 week + 1 s, 52 weeks + 5 s, 53 weeks + 1 s, 60 weeks + 777 s (stake start 0), and 3 days with every stake "
             "start in [0, i64::MAX - T]; the durations are chosen so that every branch and boundary of the function is exercised (no complete week, remainder in a regular bucket, "
             "all regular buckets complete, one and several complete weeks past the table, remainder past the table). The elapsed time is NOT symbolic: with a symbolic duration the "
             "final u128 division does not finish even for 8-bit gradients (harness kept as tier=experimental), and full-width gradients (<= 200e18) do not finish either. "
             "(2) calculate_gt_reward_amount never decreases when the stake value or the cost integral grows, and never fails for the smaller position when it succeeds for the "
             "larger one, for every u128 stake/integral/factor and every i64 duration - decided on top of an abstract mul_div kernel (arbitrary, functional, non-decreasing in both "
             "factors), i.e. what is decided is that the factor chaining, overflow propagation and saturation to u64::MAX preserve monotonicity.",
        note="Trusted: kani-compiler + CBMC/CaDiCaL. " + _STUBS + "Assumption: stake_start_time >= 0 (a unix timestamp); `now - stake_start_time` is an unchecked i64 subtraction that panics "
             "(overflow-checks are on in the release profile) only for a negative start, which no instruction can store. Saturation inside compute_time_weighted_apy is unreachable "
             "for gradients <= APY_MAX and durations below ~2^60 s by the size argument in the harness header; that argument is not solver-checked at full width. The real ruint "
             "arithmetic of apply_factor is not exercised in (2) (its harness with real ruint does not finish: tier=experimental). OUTSIDE the claim: the value returned when no second "
             "has elapsed (now <= start: gradient[0], the property is silent), every unstake_lp clause (partial/full exit, claims disabled) - token CPIs -, and the CPI that refreshes "
             "the cumulative inverse cost.",
        technique="Kani/CBMC symbolic execution of the real reward functions: all 53 gradients symbolic at fixed boundary durations against an exact per-second reference; monotonicity over an abstract monotone kernel",
        design="C38"),
    "C39": dict(
        text=BOUNDED + "one inductive step (so every sequence of counted trades follows by induction). OnExecuted::update_leaderboard is run from EVERY leaderboard of 0..=5 entries "
             "(one harness per length) that satisfies the invariant - distinct addresses, volumes non-increasing, each entry showing its trader's latest volume, and every "
             "participant off the board having volume <= the last entry of a full board and volume 0 while the board is not full - for every u128 volume, addresses from a "
             "256-element universe, a trader on or off the board whose cumulative volume did not decrease, and one abstract other off-board participant: afterwards the board has "
             "at most 5 entries and never fewer than before, distinct addresses, non-increasing volumes, the trader is shown with its latest volume, every other entry is an "
             "untouched old entry, a trader left off and an evicted entry have volume <= the last entry of a full board, the other off-board participant still satisfies the "
             "invariant, and no other field of the competition account changes. OnExecuted::extend_competition_time for every i64 clock value, extension duration and cap, every "
             "old end time >= 0: it succeeds, the new end time is >= the old one and <= max(old end, now + cap) (sum saturating in i64), the triggering trader is recorded, nothing "
             "else changes.",
        note="Trusted: kani-compiler + CBMC (MiniSat for the leaderboard steps, CaDiCaL otherwise). The Vec::insert/remove tail shift goes through memmove with a data-dependent size, which "
             "CBMC's library model handles only with an unbounded array (> 13 GB, and imprecise); the harnesses link a bounded one-element-shift memmove model (harness/periph/c/memmove16.c, "
             "preconditions asserted at every call, validated against the memmove specification by c39_memmove_model_is_memmove) and build the Vec with capacity 6 so that it never "
             "reallocates. " + _STUBS + "Assumption for the extension: old end_time >= 0 (InitializeCompetition requires end > start > now); the code computes `end_time - old_end_time` "
             "unchecked for its log line. The invariant clause 'off-board participants of a non-full board have volume 0' rests on reading OnExecuted::invoke (participants start at 0, every "
             "volume change is followed by update_leaderboard) - invoke itself (account validation, trade-event decoding, merge window / threshold logic that decides WHEN an extension "
             "fires) is outside the claim, as is the tie order among equal volumes (any order satisfies the property).",
        technique="Kani/CBMC one-step induction over symbolic leaderboards (P2 with an abstract rest-of-the-world participant), exact i128 reference for the end-time bounds",
        design="C39"),
}
