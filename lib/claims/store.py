CLAIMED = {
    "C16": dict(
        text=BOUNDED + "for an arbitrary market account image (any stored values, any flags, open and closed markets) and an arbitrary store image: "
             "(1) every market config key (every u16 code the key enum accepts) is read and written at one 16-byte slot of the config, distinct keys have distinct slots, "
             "no slot overlaps the flag word, and the market-level accessors use exactly those slots; (2) each of the four config flags is set/read in isolation and never "
             "changes a factor; (3) for every key, the market-model parameter it names (swap/position impact, fee, position, borrowing incl. kink model, funding, reserve, "
             "pnl-factor, pool/open-interest caps, deposit caps; long keys feed the long computation, short keys the short one; closed-market keys replace their open "
             "counterparts exactly when the market is closed and the switch flag is set) reads that key, on the program Market and on the SDK MarketModel decoded from the same words; "
             "(4) store amount/factor/address keys are read and written at one slot each, pairwise disjoint.",
        note="Trusted: kani-compiler + CBMC/CaDiCaL; the key -> model-parameter table in harness/store/src/c16_config_keys.rs (model_read) restates the documented meaning of each key. "
             "Write isolation is stated as slot identity/disjointness (addresses) rather than by writing through a symbolic pointer, which does not finish in CBMC for an 8 KB object "
             "(the value-level write/read-back variant runs on the config struct alone in the thorough tier). Market::get_config_by_key_mut is enumerated key by key (codes 0..128). "
             "The string-keyed entrypoints (strum FromStr) and the instruction layer are outside the claim.",
        technique="Kani/CBMC symbolic execution of the real config accessors and model-trait impls over arbitrary account images (program and SDK side)",
        design="C16"),
}
