CLAIMED = {
    "C16": dict(
        text=BOUNDED + "for an arbitrary market account image (any stored values, any flags, open and closed markets) and an arbitrary store image: "
             "(1) every market config key (every u16 code the key enum accepts) is read and written at one 16-byte slot of the config, distinct keys have distinct slots, "
             "no slot overlaps the flag word, and the market-level accessors use exactly those slots; (2) each of the four config flags is set/read in isolation and never "
             "changes a factor; (3) for every key, the market-model parameter it names (swap/position impact, fee, position, borrowing incl. kink model, funding, reserve, "
             "pnl-factor, pool/open-interest caps, deposit caps; long keys feed the long computation, short keys the short one; closed-market keys replace their open "
             "counterparts exactly when the market is closed and the switch flag is set) reads that key on the program Market (the SDK MarketModel decoded from the same words is compared with the program under C40); "
             "(4) store amount/factor/address keys are read and written at one slot each, pairwise disjoint.",
        note="Trusted: kani-compiler + CBMC/CaDiCaL; the key -> model-parameter table in harness/store/src/c16_config_keys.rs (model_read) restates the documented meaning of each key. "
             "Write isolation is stated as slot identity/disjointness (addresses) rather than by writing through a symbolic pointer, which does not finish in CBMC for an 8 KB object "
             "(the value-level write/read-back variant runs on the config struct alone in the thorough tier). Market::get_config_by_key_mut is enumerated key by key (codes 0..128). "
             "The string-keyed entrypoints (strum FromStr) and the instruction layer are outside the claim.",
        technique="Kani/CBMC symbolic execution of the real config accessors and model-trait impls over arbitrary account images",
        design="C16"),
}

_E2 = ("symbolic execution of the compiler's MIR of the real functions into SMT-LIB2 over mathematical integers with explicit machine ranges, "
       "decided by z3 (cvc5 cross-check in the thorough tier), counterexamples replayed natively")

CLAIMED.update({
    "C31": dict(
        text=BOUNDED + "program side, full u128 width: the MIR of the real Store::order_fee_discount_factor, GtState::order_fee_discount_factor and Factors::get "
             "(with gmsol-model's apply_factor / checked_mul_div inlined across the crate boundary) is executed on an arbitrary store image restricted to the fields read "
             "(gt.max_rank <= 15, the 16 rank factors <= 100%, the referred-user factor <= 100%), every u8 rank and both referral states: Err exactly when rank > max_rank, "
             "unreferred = the rank factor, referred = B + floor(A*(UNIT-B)/UNIT), always within [0, 100%] and >= both A and B; no panic (array index, overflow) is reachable.",
        note="Assumes the representation invariant gt.max_rank <= MAX_RANK established by GtState::init and factors <= 100% (validated by set_order_fee_discount_factors; the property's quantifier). "
             "Anchor error construction is opaque. The SDK copy (crates/programs/src/utils/store.rs) and the program/SDK equality are NOT decided. Trusted: rustc's MIR dump, the translator in /verif/mir2smt, z3/cvc5, the callee models listed in the evidence.",
        technique=_E2, design="C31", engine="mir2smt"),
    "C32": dict(
        text=BOUNDED + "helpers only. Full width (MIR->SMT): compute_builder_fee_amount, clamp_builder_fee_amount and charge_builder_fee_on_collateral_increment for every u128 size, factor, "
             "min/max price and every u64 increment: factor 0 gives Ok(0) whatever the price; otherwise Ok(fee) iff fee = ceil(floor(size*factor/10^20) / p_min) with no overflowing intermediate, "
             "Err exactly for p_min = 0 or overflow; clamp = min(fee, available); charge returns (after, fee) with after + fee = increment, Err exactly when the fee cannot be computed, exceeds u64 or exceeds the increment; "
             "no panic is reachable. Kani: Order::record_builder_fee on an arbitrary order image accumulates exactly, rejects overflow without change, and changes no other word of the account.",
        note="Not decided: estimate_builder_fee_for_collateral_withdrawal (its Kani harness does not finish and is kept experimental), the decrease-path bound 'recorded fee <= final output amount' and "
             "SettleBuilderFee::invoke (token CPIs, instruction layer). Trusted: rustc's MIR dump, the translator in /verif/mir2smt, z3/cvc5, kani-compiler + CBMC.",
        technique=_E2 + "; Kani/CBMC for the recorded-amount state transition", design="C32", engine="mir2smt+kani"),
    "C20": dict(
        text=BOUNDED + "state level only: on an arbitrary permission image, marking a market-config key (every u16 key code) or flag as updatable / not updatable succeeds exactly when it changes the mark, "
             "is read back for that key, and never changes the mark of any other key or flag.",
        note="The handlers (update_market_config, update_market_config_flag, update_market_config_with_buffer: role check, buffer expiry, 'one non-updatable entry rejects the whole buffer') "
             "run behind Anchor contexts and are NOT decided. Trusted: kani-compiler + CBMC.",
        technique="Kani/CBMC symbolic execution of the real MarketConfigPermissions accessors over arbitrary images", design="C20"),
    "C33": dict(
        text=BOUNDED + "state level: on arbitrary user / referral-code account images, Referral::set_referrer succeeds only when no referrer is set and the referrer's owner is non-default, records exactly that owner, "
             "bumps only the referrer's referee count, and any second attempt fails without changing either account; Referral::set_code sets only an unset code; proposing a code transfer never changes the code owner "
             "or any user's code; completing it succeeds only for the proposed next owner who has no code, moves the code to exactly that user and leaves the sender without it; rejected calls change nothing.",
        note="The self-referral and mutual-referral checks are Anchor account constraints / handler code (instructions/user.rs) and are NOT decided. Trusted: kani-compiler + CBMC.",
        technique="Kani/CBMC symbolic execution of the real referral state transitions over arbitrary account images", design="C33"),
})

CLAIMED.update({
    "C25": dict(
        text=BOUNDED + "one inductive step of the real PriceFeed::update from every feed state with a well-formed stored price (all i64 timestamps, u64 slots, u128 prices), every new price image, "
             "every clock (now, slot), every max-future-excess and both modes, against an exact acceptance oracle: an update is applied iff the clock did not go backwards, the price timestamp is not older, "
             "not beyond now + excess (saturating) and min <= price <= max; applied updates store exactly the new price and the current slot/time; in idempotent mode an older update returns Ok(false); "
             "skipped and rejected updates leave the feed unchanged; the price timestamp never decreases and min <= price <= max is preserved, so histories of any length follow.",
        note="Clock::get is stubbed by an arbitrary clock drawn by the harness; the head of the account (bump, provider, keys) and reserved tail are zero (update does not read them); error-text rendering "
             "(format!, sol_log, CoreError::name/Display, integer to_string) is stubbed empty. Trusted: kani-compiler + CBMC.",
        technique="Kani/CBMC one-step induction over the real PriceFeed::update with an exact acceptance oracle", design="C25"),
    "C21": dict(
        text=BOUNDED + "buffer level, one inductive step each from an arbitrary state satisfying the revision invariant (no buffered copy carries a revision above the buffer's): (1) after "
             "start_revertible_operation every pool kind, the clocks and the other state are read from stored state, whatever an earlier committed or abandoned operation left in the buffer; "
             "(2) pool_mut / clocks_mut / other_mut hand out a buffered copy that starts from the visible value, is what later reads of the same operation see, is not the stored copy, leaves the stored "
             "copy and the other pool unchanged and preserves the invariant (every pool kind, one harness per kind).",
        note="NOT decided: commit_to_storage (it builds Vec-backed events and emits them through a CPI; its harness was not attempted within budget) and RevertibleMarket / RevertibleLiquidityMarket "
             "(mint/burn deferral), which need Anchor account loaders. Pre-states are built field-wise through cfg(gmsol_verif) raw accessors: buffer revision, the copies under observation, clocks and other "
             "state arbitrary, untouched state zero. Trusted: kani-compiler + CBMC.",
        technique="Kani/CBMC one-step induction over the real revertible buffer of an in-memory market", design="C21"),
})

CLAIMED.update({
    "C40": dict(
        text=BOUNDED + "accessor level: the SDK Market layout has the program's size, and for an arbitrary market account image decoded by both sides from the same words, every configuration parameter "
             "read through the model traits (every market config key: impact, fee, position, borrowing incl. kink model and the closed-market switch, funding, reserve, pnl factors, pool / open-interest caps), "
             "the deposit caps, the skip-borrowing-fee and ignore-open-interest flags and the pure flag agree between gmsol_programs::model::MarketModel and the program's Market; the SDK Pool obeys the same "
             "pure-pool accounting as the program Pool (C15 harnesses run on both types).",
        note="NOT decided: pool-by-pool equality of the decoded pools, balances and clocks, whole-action simulation equality (both sides run the same generic gmsol-model code, see C02-C14), the SDK clock, "
             "and the SDK order-fee-discount copy. Trusted: kani-compiler + CBMC; the key -> parameter table in harness/store/src/c16_config_keys.rs.",
        technique="Kani/CBMC differential execution of the SDK and program model-trait impls over the same arbitrary account image", design="C40"),
})

CLAIMED.update({
    "C22": dict(
        text=BOUNDED + "function level only: the real ValidateMarketBalances::validate_market_balance_for_the_given_token (quick) and validate_market_balances for a two-token market (thorough) return Ok "
             "exactly when the recorded balance of the token minus the excluded amount is at least liquidity + swap-impact + claimable-fee of that token side and, separately, at least the total position "
             "collateral of that side (exact u128 sums; an overflowing sum or an excluded amount above the balance fails), for all u128 pool amounts and all u64 balances / excluded amounts, read through "
             "the real Market pool accessors and gmsol_model::BaseMarketExt.",
        note="The statement 'after every successful instruction, for all histories, across markets sharing a vault, recorded balances never exceed the vault balance' needs the Anchor instruction layer and "
             "SPL-token state and is NOT decided; neither are RevertibleMarket::record_transferred_in/out (account loaders). Bank::balance is restated in the harness view type (long balance for the long "
             "token or a pure market, short balance otherwise); the single-token (pure) variant of validate_market_balances does not finish and is kept experimental. Mints are two fixed constants. "
             "Trusted: kani-compiler + CBMC.",
        technique="Kani/CBMC symbolic execution of the real balance-validation code over arbitrary pool amounts and balances, exact solvency oracle", design="C22"),
})
