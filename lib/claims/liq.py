# Claims of the `liq` area (harness crate /verif/harness/liq): swap, deposit/withdraw.
# Shape: see /verif/lib/manifest_data.py. BOUNDED is predefined by the loader.

_W8 = ("All harnesses run the real generic gmsol-model source instantiated at the narrow number types that exist under "
       "--cfg gmsol_verif (T = u8 with DECIMALS = 1, i.e. UNIT 10; T = u16 with DECIMALS = 2 where stated), against a plain-struct "
       "market (harness/liq/src/vmarket.rs) whose every pool, parameter, clock reading and the supply is a field the harness makes symbolic. ")

CLAIMED = {
    "C04": dict(
        text=BOUNDED + _W8 +
             "Quick tier, whole action on a lean state: the real Swap::try_new + Swap::execute (long-token-in and short-token-in harnesses) with the liquidity "
             "pool, the swap impact pools of both tokens, the impact factors (exponent 1.0), the amount and the long/short token prices symbolic (fees zero, "
             "no open interest, no virtual inventory): on Ok the sum liquidity + swap-impact + claimable-fee of token-in grows by exactly the input amount, the "
             "same sum of token-out shrinks by exactly the reported output, each pool moves by exactly the reported fee / impact amounts (incl. the case where "
             "positive impact is capped by the token-out impact pool and the remainder is paid from the token-in impact pool -- cover witness), every other "
             "field is unchanged; on Err the market is bit-identical and no mutable accessor was requested (atomicity). "
             "Quick tier, components: swap_impact_amount_with_cap equals an exact "
             "integer reference for every u8 pool balance, side, price pair and i8 impact value (positive amount = floor(value/max price) capped by "
             "the impact pool balance, capped difference value exact, negative amount = ceil(|value|/min price), failure exactly on zero prices / "
             "unrepresentable intermediates); apply_swap_impact_value_with_cap moves exactly that amount out of / into exactly that side of the impact "
             "pool and leaves the pool unchanged on failure; FeeParams::apply_fees splits every amount into after-fee + pool fee + receiver fee that add "
             "up exactly (u8 with discount, u16 without); BaseMarketExt::checked_apply_delta with Delta::new_both_sides / new_one_side / "
             "PoolExt::apply_delta_amount adds each signed delta to exactly the named side of the liquidity pool and of the virtual inventory, or "
             "fails without a result (u8, u16). "
             "Thorough tier: the same whole-action clauses on an ALL-symbolic u8 market (every pool, limit, factor, open "
             "interest, virtual inventory absent/present, fees with discount, impact factors, side, amount, six prices; impact exponent 0 or 1.0), and on a "
             "lean state with symbolic fees.",
        note="Trusted: kani-compiler + CBMC/CaDiCaL; the VMarket environment (accessors return fields; VPool::checked_apply_delta is checked add/sub). "
             "Cost: one whole Swap::execute is ~4.4 M SSA steps in CBMC whatever is concrete, so the two quick whole-swap harnesses take 24-32 min each (10.5 GB each) "
             "on the loaded build machine and carry timeout=2700; the all-symbolic thorough run takes 45-50 min. Hand mutations of Swap::try_execute/execute refuted by these "
             "harnesses: price pick flipped, liquidity delta side flipped, pool fee not booked, validation moved after the first write, capped remainder not deducted from "
             "the input-side impact pool. "
             "Bounds: 8-bit instantiation (16-bit for two components); impact exponents other than 0 and 1.0 and the u64/u128 MulDiv impls are outside the claim; "
             "'reachable by deposits, withdrawals and swaps' is over-approximated by ALL states (one step from any state). The u16 instance of the cap harness "
             "does not finish (tier=experimental).",
        technique="Kani/CBMC symbolic execution of the real swap code at 8/16-bit width: exact component references (quick), whole Swap::execute on an all-symbolic market (thorough)",
        design="C04"),
    "C05": dict(
        text=BOUNDED + _W8 +
             "Quick tier: swap_impact_amount_with_cap (the function that bounds the funded positive impact) equals its exact integer reference for every u8/i8 "
             "input: paid amount <= impact pool balance, amount*max_price + capped difference <= impact value, negative impact rounded against the user; and the "
             "whole Swap::execute on the lean state of C04's quick harnesses (liquidity pool, both impact pools, impact factors, side, amount, token prices symbolic; "
             "zero fees) satisfies the value bound and the exact output formula below. "
             "Thorough tier: whole Swap::execute on an all-symbolic u8 market (same bounds as C04): on Ok, out*price_out.max <= in*price_in.min + "
             "(impact-pool decrease valued at the prices the code uses), exact in 32-bit integers; moreover out == floor((in - fees [+ amount taken from the "
             "token-in impact pool | - negative impact amount]) * price_in.min / price_out.max) [+ positive impact amount], fees <= in, and with zero fee and zero "
             "impact out == floor(in*price_in.min/price_out.max).",
        note="Trusted: kani-compiler + CBMC/CaDiCaL; VMarket environment. The quick whole-swap harness takes ~25-30 min (10.5 GB, timeout=2700), the all-symbolic thorough one 45-50 min. "
             "'Funded positive impact' is read off the two swap-impact pools: what leaves the token-out pool at price_out.max plus, "
             "when that pool caps the payment, what leaves the token-in pool at price_in.min. 8-bit instantiation; impact exponent 0 or 1.0; u64/u128 MulDiv impls outside the claim.",
        technique="Kani/CBMC symbolic execution of the real swap code at 8-bit width with exact wider-integer oracles",
        design="C04"),
    "C06": dict(
        text=BOUNDED + _W8 +
             "Quick tier: utils::usd_to_market_token_amount and market_token_amount_to_usd equal their exact specification for every u8 input (first deposit into an "
             "empty pool = floor(value/divisor), i.e. one USD per market token as the code defines it; mint = floor(supply*value/pool_value), rounded down; "
             "redeem = floor(pool_value*amount/supply); failure exactly on zero divisor / empty pool with supply / unrepresentable result); the two conversions "
             "composed as deposit-then-redeem never return more than the deposited value and never lower the value per token of the old supply (values <= 63 in "
             "quick, <= 127 in thorough); LiquidityMarketExt::pool_value equals liquidity value at the maximised/minimised prices + pool share of pending borrowing "
             "fees - net pnl capped per side by the max-pnl factor of the requested kind - position-impact-pool value after pending distribution, compared "
             "with an exact reference in three slices (liquidity+impact pool; open interest / capped pnl; borrowing fees) and all-symbolic in thorough. "
             "Thorough tier (whole actions, u8, no open interest): the first Deposit::execute into an empty market mints floor(net_long*min_price/divisor) + "
             "floor(net_short*min_price/divisor) with exact pool bookkeeping; one long-token Deposit::execute from any state mints exactly "
             "floor(supply * net value at min price / maximised pool value) + floor(supply * positive impact value / maximised pool value), where the positive impact "
             "amount is exactly what left the other token's swap impact pool, and books every token exactly; one Withdrawal::execute pays exactly "
             "floor(floor(mtv*side_value/total_value)/max price) per token with mtv = floor(minimised pool value * burned / supply), and books every token exactly. "
             "From these exact formulas: neither leg lowers the value per market token of the remaining supply (minted*PVmax <= supply*(value in + funded impact); "
             "paid value at max prices <= burned share of PVmin), and with the conversion lemma a deposit followed by withdraw-all returns at most the deposited value "
             "(min prices) plus the positive impact funded by the swap impact pool.",
        note="Trusted: kani-compiler + CBMC/CaDiCaL; VMarket environment; the closed form PV = L*pL + S*pS for markets without open interest (tied to the real pool_value by the "
             "pool_value harnesses); the two-line arithmetic that turns the exact leg formulas into the inequalities (written out in harness/liq/src/c06_liquidity.rs). "
             "The direct deposit-then-withdraw harnesses exhaust memory and the inequality-only leg harness did not finish in 90 min; both kept as tier=experimental. "
             "The short-token deposit leg is the same code path with the side flag flipped; its run was killed by memory exhaustion of the shared machine and it is "
             "kept experimental until it has passed once. The deposit-leg harness needs ~22 GB resident / a 58 GB address-space cap and ~80 min. "
             "Excluded by design (stated as an assumption): a market with zero supply but a non-empty pool, whose first depositor owns the residue; positive impact on "
             "deposit is a bonus paid out of the swap impact pool and is accounted on the right-hand side. Whole-action harnesses: no open interest, clocks at 0 s, impact "
             "exponent 1.0. 8-bit instantiation only; the u16 conversion harness does not finish (experimental).",
        technique="Kani/CBMC symbolic execution of the real deposit/withdraw/pool-value code at 8-bit width; exact replica references per leg, composed by a proved conversion lemma",
        design="C06"),
}
