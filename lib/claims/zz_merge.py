# Claims whose checks combine parts built in different areas (merged by hand from the helpers' reports).

_E2 = ("symbolic execution of the compiler's MIR of the real functions into SMT-LIB2 over mathematical integers with explicit machine ranges, "
       "decided by z3 (cvc5 cross-check in the thorough tier), counterexamples replayed natively")

CLAIMED = {
    "C26": dict(
        text=BOUNDED + "MIR->SMT part, every u128 price: the MIR of the real Decimal::try_from_price is executed for each of the 4851 settings (decimals, token_decimals, precision) within "
             "the limits: Ok(dec) implies dec.decimal_multiplier = 20 - token_decimals - precision and dec.value = floor(price * 10^precision / 10^decimals) <= u32::MAX "
             "(truncation, never up, error below one precision step), Err implies that this value exceeds u32::MAX; for all u8 settings outside the limits the result is Err; no "
             "overflow, shift or division panic is reachable. Decimal::to_unit_price = value * 10^multiplier and Decimal::with_unit_price = floor/ceil(price / 10^multiplier) or None above "
             "u32::MAX (every u32 value, every multiplier <= 20). find_divisor_decimals returns min{k : num <= u128::MAX * 10^k} for every U192 number and convert_to_u128_storage returns "
             "(floor(num / 10^k), decimals - k) or None when k > decimals. Kani part (concrete settings, every u128 price): acceptance iff the truncated value fits u32, the multiplier, "
             "rejection of every unsupported setting, exact truncation on concrete-quotient windows and for values < 2^10; find_divisor_decimals against recomputed bounds for every U192; "
             "pyth_price_value_to_decimal exponent normalisation for every i32 exponent (never panics, hands the exact (price, decimals) to try_from_price, propagates its result).",
        note="Trusted: rustc's MIR dump, the translator in /verif/mir2smt and its callee models (listed in the evidence), z3/cvc5; kani-compiler + CBMC. Assumes decimal_multiplier <= 20 for "
             "to_unit_price/with_unit_price (the documented invariant, proved for values produced by try_from_price). find_divisor_decimals is minimal with respect to the table bound u128::MAX*10^k "
             "(pinned by the repository's tests). In the Kani pyth harnesses Decimal::try_from_price is replaced by a recording probe. Exact 128-bit division by a constant does not finish in CBMC, "
             "so exact truncation for all settings rests on the MIR->SMT part.",
        technique=_E2 + "; Kani/CBMC for classification, windows and the Pyth exponent handling", design="C26", engine="mir2smt+kani"),
    "C28": dict(
        text=BOUNDED + "decoding: the real decode_full_report is run on every payload of every length 0..=168 bytes (quick) / 0..=256 bytes (thorough): it never panics, never reads out of bounds, "
             "never overflows, and returns a blob only when offset/length words are in range and the blob lies inside the payload. Conversion: PriceFeedPrice::from_chainlink_report on a report built "
             "through the cfg(gmsol_verif) Report constructor, for divisor exponents k = 0, 1 (quick) and 2, 3 (thorough) over all bid/price/ask values on the interval where the real "
             "find_divisor_decimals yields k: never panics, rejects negative or misordered bid/price/ask and accepts every other report, min <= price <= max, each value equals floor(x/10^k), "
             "decimals = 18 - k, flags and status exact; k = 19 is always rejected; the last-update age is exact on windows with every nanosecond offset.",
        note="Trusted: kani-compiler + CBMC. ruint's limb division is replaced by its specification (q*d + r == n, r < d), find_divisor_decimals by the constant k on the interval decided for the real function "
             "under C26. Divisor exponents 4..18 (k = 18 does not finish), payloads longer than 256 bytes, snap decompression and the ABI decoding into num_bigint are outside the claim.",
        technique="Kani/CBMC symbolic execution of the real report framing decoder and of the report-to-price conversion with the big-integer division specified", design="C28"),
}

AMEND = {
    "C14": dict(
        text_append="MIR->SMT part, full u128 width: the MIR of the real PositionImpactMarketExt::pending_position_impact_pool_distribution_amount (Num = u128, DECIMALS = 20) "
                    "is executed for every pool amount, minimum, distribute factor (all u128) and every u64 duration, with utils::apply_factor and <u128 as MulDiv>::checked_mul_div "
                    "inlined from their MIR: the call never fails and never panics, next = current - distributed <= current, current > min implies next >= min, nothing is "
                    "distributed when the factor is zero or current <= min, and otherwise distributed = min(floor(t*rate/10^20), current - min) exactly.",
        note_append="E2 part: abstract market (position_impact_pool_amount() and position_impact_distribution_params() return Ok(arbitrary values); their Err results are only propagated); "
                    "trusted: rustc's MIR dump, the translator in /verif/mir2smt and its callee models, z3/cvc5.",
        technique="Kani/CBMC symbolic execution of the real generic code at reduced width + MIR->SMT-LIB2 (z3, cvc5 cross-check) of the same function at full u128 width",
        engine="kani+mir2smt"),
}

# E2-only claims merged from mir2smt/claims_proposed.py
CLAIMED.update({
    'C24': dict(
        text=BOUNDED + 'E2, full width: the MIR of the real PriceValidator::{validate_one, merge_range, finish} and SmallPrices::from_price for every i64 timestamp / clock, u64 max-age / range / future-excess / slot, u32 timestamp adjustment and deviation ratio, u32 price values (validate_one per (min, max) multiplier pair: quick 21 equal pairs + 2, thorough all 441), from an arbitrary accumulated range state. validate_one: Ok exactly when the accessors succeed, oracle_ts - adj + max_age >= now without i64 overflow, min(now + excess, i64::MAX) >= oracle_ts, and (no deviation configured, or D = floor(R*ratio*10^12/10^20) = 0, or both |p - R| <= ceil(D/10^m_max)*10^m_max); on Ok the range state becomes the merge with (slot, ts, ts), ts = oracle_ts - adj, on Err it is unchanged; merge_range = (min slot, min ts, max ts); finish: Ok exactly when 0 <= max_ts - min_ts <= range; from_price: Ok exactly when multipliers are equal and 0 < min.value <= max.value, storing them unchanged; no panic.',
        note="KNOWN FINDING (by design, reproduced natively, key c24_deviation_rounded_up_to_grid_or_skipped_at_zero): the literal |p - R| <= D is exceeded by less than one grid step of p.max because D is rounded up to that grid, and the check is skipped altogether when D == 0; outside that region (D > 0 a multiple of the grid step) the literal clause is decided. TokenConfig accessors abstract; provider / feed identity, clock sysvar and Oracle::with_prices_opts clearing not encoded. Trusted: rustc's MIR dump, the translator in /verif/mir2smt and its callee models (listed in the evidence), z3 (cvc5 cross-check best-effort, counts in the evidence).",
        technique=_E2, design='C24', engine="mir2smt"),
    'C29': dict(
        text=BOUNDED + "E2, full width: the MIR of the real try_adjust_price_with_max_deviation_factor (with Price::<u128>::from(&Price), Price::checked_mid, Decimal::to_unit_price / with_unit_price, apply_factor / <u128 as MulDiv>::checked_mul_div inlined from gmsol-model's and gmsol-utils' MIR) for every u32 value of min / max / reference, every reference multiplier <= 20, explicit and mid reference, every u128 factor, per pair of (min, max) multipliers (quick: the 21 equal pairs + 4 unequal; thorough: all 441). Decided: the reference R and deviation D = floor(R*factor/10^20) the code uses are the defined ones; Some(p) keeps both multipliers, leaves a side inside [R-D, R+D] untouched, sets an out-of-band max to floor((R+D)/10^m) and an out-of-band min to ceil((R-D)/10^m); None exactly when nothing is out of band or D / R+D / R-D / a rounded value does not fit; no panic. R-D <= p.min <= p.max <= R+D holds whenever min and max use the same multiplier and the grid step 10^m of every adjusted side is <= 2D+1.",
        note="KNOWN FINDING (reproduced natively, keys c29_out_of_band_on_coarse_or_unequal_grid / c29_inverted_on_coarse_or_unequal_grid): when the grid step of an adjusted side exceeds the band width (10^m > 2D+1, e.g. D = 0) or min / max carry different multipliers, the rounded bound can leave the band or invert the price, e.g. factor 0, min = 1e8, max = 4294967294e8 (m = 8, mid reference) gives min = 2147483648e8 > max = 2147483647e8. Multipliers <= 20 assumed (C26). try_adjust_price (caller keeps the input on None) and the later validation are not part of this function. Trusted: rustc's MIR dump, the translator in /verif/mir2smt and its callee models (listed in the evidence), z3 (cvc5 cross-check best-effort, counts in the evidence).",
        technique=_E2, design='C29', engine="mir2smt"),
    'C30': dict(
        text=BOUNDED + 'E2, full width: GtState::get_mint_amount (Ok((minted, minted_value, cost)): minted*cost = minted_value <= value, value - minted_value < cost, Err exactly for cost 0 or minted > u64::MAX), GtState::next_minting_cost with the growth loop unrolled 3 times (steps = floor(next/step_amount); cost = the (steps - grow_steps)-fold iterate of c -> floor(c*factor/10^20) from the stored cost, checked both against the tapped intermediate values and against an independently defined ghost chain; Err exactly for a zero step amount or an iterate above u128; `loop bound exceeded` unreachable under the stated bound) and GtState::unchecked_update_rank (rank = number of thresholds among the first max_rank <= 15 that are <= the amount, for every strictly increasing table), no panic. Path independence of the minting cost follows from the iterate characterisation (not decided as a composite).',
        note="At most 3 new growth steps per call (assumption next < (grow_steps+4)*step); sorted-ranks / max_rank <= 15 invariant assumed (GtState::init). mint_to / burn (clock, supply ledger) and the exchange vault are not encoded by E2. A three-run composite for path independence timed out on some splits and was removed. Trusted: rustc's MIR dump, the translator in /verif/mir2smt and its callee models (listed in the evidence), z3 (cvc5 cross-check best-effort, counts in the evidence).",
        technique=_E2, design='C30', engine="mir2smt"),
})

CLAIMED.update({
    "C45": dict(
        text=BOUNDED + "balance caps (MIR->SMT, full width): " + 'the MIR of the real Glv::validate_market_token_balance / GlvMarketConfig::validate_balance (market_token_amount_to_usd and <u128 as MulDiv>::checked_mul_div inlined from gmsol-model) for every u64 max_amount / balance, u128 max_value / supply, i128 pool value: Ok exactly when the market is in the GLV and (no caps, or balance <= max_amount if set, and pool value >= 0, supply > 0 and floor(pool*balance/supply) <= max_value if set); no panic.' + " GLV pricing (Kani, T=u8/DECIMALS=1, lean market: liquidity pool, position impact pool with distribution, supply, prices symbolic; no open interest or borrowing state in the quick tier, every market field in the thorough tier): "
             "gmsol_model::glv::get_glv_value_for_market equals the market-token value of the balance at the pool value with the requested maximisation, get_market_token_amount_for_glv_value is its rounded-down inverse, and a deposit of market tokens "
             "valued with the maximised pool value followed by a withdrawal of the booked GLV value at the minimised pool value never returns more market tokens than were deposited.",
        note='GlvMarkets::get abstract (C34 decides the map). GLV pricing in gmsol-model and the instruction layer are not encoded by E2.' + " NOT decided: Glv::insert_market admission (its Kani harness on the 7 KB GLV image does not finish; kept experimental), the composition clause for markets already in a GLV and the ops/glv.rs instruction flow. "
             "With max pnl factor for withdrawals above the one for deposits the round trip can return more tokens (configuration-dependent, key glv_round_trip_pnl_factor_order, harness kept experimental); the round trip is decided for the lean state where no pnl factor enters. "
             "Trusted: rustc's MIR dump, /verif/mir2smt and its callee models, z3/cvc5; kani-compiler + CBMC; the narrow-width number impls.",
        technique=_E2 + "; Kani/CBMC at reduced width for the GLV pricing functions", design="C45", engine="mir2smt+kani"),
})

AMEND.update({
    "C37": dict(
        text_append="MIR->SMT part (full width): " + 'the MIR of the real GtBank::reserve_balances for a bank holding one token balance (the fixed-map iterator is abstract and yields that entry; loop unrolled once, bound checked): Ok exactly when numerator <= denominator and (balance == 0 or denominator != 0); then the new balance is floor(balance*numerator/denominator) <= the old one; on Err the balance is unchanged; no panic (every u64 balance, every u128 numerator / denominator). Claim formula of CompleteGtExchange::execute: only its kernel <u64 as MulDiv>::checked_mul_div(balance, gt_amount, total) under the precondition total >= gt_amount the code checks first: Some(amount) with amount = floor(balance*gt_amount/total) <= balance, None exactly for total == 0.',
        note_append="E2: " + 'CompleteGtExchange::execute itself (account loop, token CPIs) and banks with several balances (same body per entry, documented as not atomic) are outside the subset; claim orders / draining are not decided by E2.' + " Trusted for the E2 part: rustc's MIR dump, /verif/mir2smt and its callee models, z3/cvc5.",
        technique="Kani/CBMC over arbitrary treasury account images + MIR->SMT-LIB2 (z3, cvc5 cross-check) for the 128-bit reserve / claim arithmetic",
        engine="kani+mir2smt"),
    "C38": dict(
        text_append="MIR->SMT part (full width): " + "calculate_gt_reward_amount (every u128 stake value / APY per second / inverse-cost integral, every i64 duration): Ok exactly when duration >= 0 and neither product exceeds u128; the amount is min(floor(floor(stake*apy/10^20)*integral/10^20), u64::MAX) - saturating, never wrapping, hence monotone in stake and integral; no panic. compute_time_weighted_apy with the 53-bucket loop unrolled 52 times (bound checked), one obligation set per number of full weeks 0..51 and one for >= 52: the result is floor(sum over every elapsed second of that second's weekly bucket / elapsed seconds), weeks past the last bucket using the last one, <= 200%; now <= start gives the first bucket.",
        note_append="E2: " + 'Assumes gradient entries <= 2*10^20 (the cap), start >= 0 and now = start + elapsed <= i64::MAX (with a negative start and more than i64::MAX elapsed seconds the overflow-checked `now - start` panics), elapsed <= 1701411834604692317 s (beyond it the saturating accumulator can clip). Unstake / exit logic is not encoded by E2.' + " Trusted for the E2 part: rustc's MIR dump, /verif/mir2smt and its callee models, z3/cvc5.",
        technique="Kani/CBMC exact-average oracle at reduced gradient width and fixed durations + MIR->SMT-LIB2 (z3, cvc5 cross-check) of the same functions at full width per number of full weeks",
        engine="kani+mir2smt"),
})

AMEND.update({
    "C30": dict(
        text_append="Kani complement: the real GtState::unchecked_update_rank is executed on every GT state image with a strictly increasing table of max_rank <= 4 thresholds and every user image: the stored rank becomes the number of thresholds at or below the balance and the balance is untouched (independent of how the function is written; added after a seeded rewrite the translator could not model).",
        note_append="Kani part trusted base: kani-compiler + CBMC; max_rank is located in the image through the real ranks() accessor (field directly in front of the table).",
        technique="MIR->SMT-LIB2 (z3, cvc5 cross-check best effort) for the mint arithmetic and rank rule + Kani/CBMC execution of the real rank update",
        engine="mir2smt+kani"),
})

AMEND.update({
    "C08": dict(
        text_append="(d) the real PositionExt::pending_funding_fees at u8 for all values: the payer's funding fee is unpacked rounded UP and both claimable amounts rounded DOWN from size*index_diff/(adjustment*UNIT), and a position index ahead of the market index is an error (harness c08_pending_funding_fees_rounding_u8 in harness/model, shared with C12; added after a seeded change of the claimable rounding was missed by the aggregate pack/unpack harnesses).",
        note_append="Clause (d) runs in the harness/model crate (plain-struct VMarket/VPosition)."),
})
