# Claims whose checks combine parts built in different areas (merged by hand from the helpers' reports).

_E2 = ("symbolic execution of the compiler's MIR of the real functions into SMT-LIB2 over mathematical integers with explicit machine ranges, "
       "decided by z3 (cvc5 cross-check in the thorough tier), counterexamples replayed natively")

CLAIMED = {
    "C26": dict(
        text=BOUNDED + "MIR->SMT part, every u128 price: the MIR of the real Decimal::try_from_price is executed for each of the 4851 settings (decimals, token_decimals, precision) within "
             "the limits: Ok(dec) implies dec.decimal_multiplier = 20 - token_decimals - precision and dec.value = floor(price * 10^precision / 10^decimals) <= u32::MAX "
             "(truncation, never up, error below one precision step), Err implies that this value exceeds u32::MAX; for all u8 settings outside the limits the result is Err; no "
             "overflow, shift or division panic is reachable. Decimal::to_unit_price = value * 10^multiplier and Decimal::with_unit_price = floor/ceil(price / 10^multiplier) or None above "
             "u32::MAX (every u32 value, every multiplier <= 20). find_divisor_decimals returns min{k : num <= u128::MAX * 10^k} for every U192 number and convert_to_u128_storage returns "
             "(floor(num / 10^k), decimals - k) or None when k > decimals. Kani part (concrete settings, every u128 price): acceptance iff the truncated value fits u32, the multiplier, "
             "rejection of every unsupported setting, exact truncation on concrete-quotient windows and for values < 2^10; find_divisor_decimals against recomputed bounds for every U192; "
             "pyth_price_value_to_decimal exponent normalisation for every i32 exponent (never panics, hands the exact (price, decimals) to try_from_price, propagates its result).",
        note="Trusted: rustc's MIR dump, the translator in /verif/mir2smt and its callee models (listed in the evidence), z3/cvc5; kani-compiler + CBMC. Assumes decimal_multiplier <= 20 for "
             "to_unit_price/with_unit_price (the documented invariant, proved for values produced by try_from_price). find_divisor_decimals is minimal with respect to the table bound u128::MAX*10^k "
             "(pinned by the repository's tests). In the Kani pyth harnesses Decimal::try_from_price is replaced by a recording probe. Exact 128-bit division by a constant does not finish in CBMC, "
             "so exact truncation for all settings rests on the MIR->SMT part.",
        technique=_E2 + "; Kani/CBMC for classification, windows and the Pyth exponent handling", design="C26", engine="mir2smt+kani"),
    "C28": dict(
        text=BOUNDED + "decoding: the real decode_full_report is run on every payload of every length 0..=168 bytes (quick) / 0..=256 bytes (thorough): it never panics, never reads out of bounds, "
             "never overflows, and returns a blob only when offset/length words are in range and the blob lies inside the payload. Conversion: PriceFeedPrice::from_chainlink_report on a report built "
             "through the cfg(gmsol_verif) Report constructor, for divisor exponents k = 0, 1 (quick) and 2, 3 (thorough) over all bid/price/ask values on the interval where the real "
             "find_divisor_decimals yields k: never panics, rejects negative or misordered bid/price/ask and accepts every other report, min <= price <= max, each value equals floor(x/10^k), "
             "decimals = 18 - k, flags and status exact; k = 19 is always rejected; the last-update age is exact on windows with every nanosecond offset.",
        note="Trusted: kani-compiler + CBMC. ruint's limb division is replaced by its specification (q*d + r == n, r < d), find_divisor_decimals by the constant k on the interval decided for the real function "
             "under C26. Divisor exponents 4..18 (k = 18 does not finish), payloads longer than 256 bytes, snap decompression and the ABI decoding into num_bigint are outside the claim.",
        technique="Kani/CBMC symbolic execution of the real report framing decoder and of the report-to-price conversion with the big-integer division specified", design="C28"),
}

AMEND = {
    "C14": dict(
        text_append="MIR->SMT part, full u128 width: the MIR of the real PositionImpactMarketExt::pending_position_impact_pool_distribution_amount (Num = u128, DECIMALS = 20) "
                    "is executed for every pool amount, minimum, distribute factor (all u128) and every u64 duration, with utils::apply_factor and <u128 as MulDiv>::checked_mul_div "
                    "inlined from their MIR: the call never fails and never panics, next = current - distributed <= current, current > min implies next >= min, nothing is "
                    "distributed when the factor is zero or current <= min, and otherwise distributed = min(floor(t*rate/10^20), current - min) exactly.",
        note_append="E2 part: abstract market (position_impact_pool_amount() and position_impact_distribution_params() return Ok(arbitrary values); their Err results are only propagated); "
                    "trusted: rustc's MIR dump, the translator in /verif/mir2smt and its callee models, z3/cvc5.",
        technique="Kani/CBMC symbolic execution of the real generic code at reduced width + MIR->SMT-LIB2 (z3, cvc5 cross-check) of the same function at full u128 width",
        engine="kani+mir2smt"),
}
