#!/usr/bin/env python3
import json, os, sys
sys.path.insert(0, os.path.dirname(os.path.abspath(__file__)))
import manifest_data as md
VERIF = os.path.dirname(os.path.dirname(os.path.abspath(__file__)))
props = [json.loads(l)["id"] for l in open(os.path.join(VERIF, "properties.jsonl"))]
baseline = json.load(open("/root/.vp/BASELINE.json"))["cmd"] if os.path.exists("/root/.vp/BASELINE.json") else ""
hooks_commits = []
hc = os.path.join(VERIF, "hooks_commits.txt")
if os.path.exists(hc):
    hooks_commits = [l.split()[0] for l in open(hc) if l.strip() and not l.startswith("#")]
checks = []
for p in props:
    if p in md.CLAIMED:
        c = md.CLAIMED[p]
        checks.append({
            "property_id": p,
            "quick_cmd": f"./check {p} --tier quick",
            "thorough_cmd": f"./check {p} --tier thorough",
            "evidence_file": f"/verif/evidence/{p}.json",
            "replay_cmd_template": f"./check {p} --replay {{path}}",
            "engine": c.get("engine", "kani"),
            "level_claimed": {"category": "proof", "text": c["text"], "design_ref": "DESIGN.md §2 " + c.get("design", p)},
            "level_note": c["note"],
            "technique": c["technique"],
        })
na = []
for p in props:
    if p not in md.CLAIMED:
        na.append({"property_id": p, "reason": md.NOT_APPLICABLE.get(p, "check not built yet in this round (planned, see DESIGN.md §2)")})
m = {
    "version": 1,
    "setup_cmd": "./check --setup",
    "hooks": {
        "guard": "gmsol_verif",
        "enable": "RUSTFLAGS=\"--cfg gmsol_verif\" (passed by ./check to every cargo kani invocation)",
        "baseline_off_cmd": baseline,
        "source_commits": hooks_commits,
        "add_only": True,
    },
    "engines": [
        {"name": "kani", "path": "/verif/harness", "serves_properties": [p for p in props if p in md.CLAIMED and "kani" in md.CLAIMED[p].get("engine", "kani")],
         "kind_free_text": "Kani 0.68 / CBMC 6.11 bounded model checking of the real crates through out-of-tree harness crates with path dependencies on /repo"},
        {"name": "mir2smt", "path": "/verif/mir2smt", "serves_properties": [p for p in props if p in md.CLAIMED and "mir2smt" in md.CLAIMED[p].get("engine", "kani")],
         "kind_free_text": "nightly MIR dump of the real crate (regenerated on every run) -> forward symbolic execution of the acyclic CFG -> SMT-LIB2 over Int with explicit machine ranges -> z3 (cvc5 cross-check in the thorough tier), native replay of every model"},
    ],
    "checks": checks,
    "not_applicable": na,
    "notes": "Exit codes of ./check: 0 held (KNOWN-FINDING lines allowed), 1 reproduced violation (VIOLATION line), 2 inconclusive or broken check (timeout, OOM, unsatisfied cover, non-reproducing counterexample).",
}
json.dump(m, open(os.path.join(VERIF, "MANIFEST.json"), "w"), indent=1)
print("claimed", len(checks), "not_applicable", len(na))
