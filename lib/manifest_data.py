"""Per-property manifest text. `gen_manifest.py` turns this into MANIFEST.json."""

BOUNDED = ("bounded proof: every obligation (assertion, arithmetic-overflow, bounds, unwinding assertion, "
           "cover witness, SMT query) is decided by the SAT/SMT solver for all inputs within the stated bounds; "
           "nothing outside the bounds is claimed. ")

CLAIMED = {
    "C27": dict(
        text=BOUNDED + "is_market_open is compared with an exact i128 reference of the status/flag/freshness policy "
             "for every 64-byte feed-price image, every i64 timestamp, every u32 timeout and every policy byte (no value bound).",
        note="Trusted: kani-compiler + CBMC/CaDiCaL; the reference policy in harness/utils/src/c27_openness.rs "
             "(bit positions of PriceFlag/MarketStatusFlag and status numbering are restated there from the docs).",
        technique="Kani/CBMC symbolic execution of the real gmsol-utils code, SAT-decided equivalence with an exact reference",
        design="C27"),
    "C34": dict(
        text=BOUNDED + "one inductive step of insert/replace/remove/get/get_mut/clear/entries from every map image that "
             "satisfies the representation invariant, with a symbolic probe key (functional map equality), so histories of "
             "any length follow by induction; the macro is instantiated at capacity 3 (quick) and at the program's "
             "32-entry/32-byte-key shape (thorough).",
        note="Trusted: kani-compiler + CBMC; the representation invariant (count<=N, strictly sorted prefix, default tail) "
             "is assumed for the pre-state and proved for the post-state. Key hashing (sha256) is replaced by an identity key "
             "function: the map code is generic in it.",
        technique="Kani/CBMC one-step induction over symbolic map images with probe-key specification",
        design="C34"),
    "C35": dict(
        text=BOUNDED + "every UTF-8 string up to one byte longer than the buffer is pushed through the real "
             "fixed_str_to_bytes/bytes_to_fixed_str pair (N=4 quick, N=8 thorough) and must read back identically or be rejected, "
             "and storable names must be accepted.",
        note="Trusted: kani-compiler + CBMC. Buffer sizes 4/8 instead of 32/64: the functions are const-generic in MAX_LEN "
             "and contain no size-specific code.",
        technique="Kani/CBMC symbolic execution of the real round trip over all short UTF-8 strings",
        design="C35"),
}

NOT_APPLICABLE = {
    "C19": "access control is an attribute on ~200 Anchor entrypoints whose bodies need Context<..> with PDA-validated AccountInfos, "
           "token CPIs and sysvars; a single hand-built entrypoint context did not finish symbolic execution in 17 min/5 GB (probed), "
           "so a property quantified over all instructions is out of reach of solver-based checking here; the authentication core is decided under C18.",
    "C41": "heap-backed containers with hashing (HashSet<Pubkey>, IndexMap), bincode serialisation and input-proportional loops: "
           "outside what CBMC can execute symbolically and not loop-free integer code for the MIR->SMT encoder.",
    "C42": "petgraph StableGraph + Bellman-Ford over rust_decimal edge weights with HashMap state: heap/hash containers and "
           "input-proportional loops are outside the reach of the solver-based engines available.",
    "C44": "path execution runs over account-loader-backed revertible markets and HashSet<Pubkey> (RandomState) duplicate detection, "
           "reachable only through Anchor contexts and CPIs; per-hop arithmetic is decided under C04/C05.",
}
