"""Per-property manifest text. `gen_manifest.py` turns this into MANIFEST.json."""

BOUNDED = ("bounded proof: every obligation (assertion, arithmetic-overflow, bounds, unwinding assertion, "
           "cover witness, SMT query) is decided by the SAT/SMT solver for all inputs within the stated bounds; "
           "nothing outside the bounds is claimed. ")

CLAIMED = {
    "C15": dict(
        text=BOUNDED + "for every pure-pool image (any non-zero flag byte, any u128 total; no value bound) the real program Pool and the "
             "SDK Pool are executed for long_amount/short_amount, apply_delta_to_{long,short}_amount, checked_apply_delta and "
             "checked_cancel_amounts with arbitrary i128 deltas: the two views add up to the stored total, a delta moves the total by "
             "exactly that amount or fails without change, netting leaves total & 1; one inductive step from the representation "
             "invariant short_token_amount == 0, which every operation is shown to preserve, so any history follows.",
        note="Trusted: kani-compiler + CBMC/CaDiCaL; pools are built from raw bytes with bytemuck (field offsets 0/16/32 restated in the harness).",
        technique="Kani/CBMC symbolic execution of the real program and SDK pool code at full u128 width, one inductive step",
        design="C15"),
    "C17": dict(
        text=BOUNDED + "the real Market::init runs on a zero-initialised market with symbolic bump, store, mints (pure and impure), enabled flag "
             "and clock; every u16 config-key code, all four config flags, the market flags, all clocks and every u8 pool-kind code are "
             "compared with the documented DEFAULT_* constant / purity rule / zero amounts.",
        note="Trusted: kani-compiler + CBMC; the key -> DEFAULT_* table in harness/store/src/c17_defaults.rs (constants referenced by name; "
             "the three MarketClosed* keys and the MarketClosed flag use the open-market default they shadow, EnableMarketClosedParams is false). "
             "Market name fixed to \"m\"; Clock::get stubbed by an arbitrary clock. Changing the value of a DEFAULT_* constant itself is not detected.",
        technique="Kani/CBMC symbolic execution of the real Market::init with a symbolic key/flag/pool selector",
        design="C17"),
    "C23": dict(
        text=BOUNDED + "state-machine part only: every ActionState value and every sequence of up to 4 completed()/cancelled() attempts on the real "
             "gmsol_utils::action::ActionState: exactly one transition out of Pending succeeds, terminal states are absorbing, predicates agree "
             "with the state. Escrow return (token CPIs in the close instructions) is not decided.",
        note="Trusted: kani-compiler + CBMC. The instruction-level clauses (escrow goes home, close-once) need Anchor contexts and token CPIs and are outside the claim.",
        technique="Kani/CBMC symbolic execution of the real ActionState transition functions",
        design="C23"),
    "C28": dict(
        text=BOUNDED + "decoding part only: the real decode_full_report is run on every payload of every length 0..=168 bytes (quick) / 0..=256 bytes "
             "(thorough): it never panics, never reads out of bounds, never overflows, and returns a blob only when offset/length words are "
             "in range and the blob lies inside the payload. The report -> PriceFeedPrice conversion is not decided (its harness does not "
             "finish; kept as tier=experimental).",
        note="Trusted: kani-compiler + CBMC. Longer payloads and the numeric conversion (ruint U192 arithmetic) are outside the claim.",
        technique="Kani/CBMC symbolic execution of the real report framing decoder over arbitrary short payloads",
        design="C28"),
    "C27": dict(
        text=BOUNDED + "is_market_open is compared with an exact i128 reference of the status/flag/freshness policy "
             "for every 64-byte feed-price image, every i64 timestamp, every u32 timeout and every policy byte (no value bound).",
        note="Trusted: kani-compiler + CBMC/CaDiCaL; the reference policy in harness/utils/src/c27_openness.rs "
             "(bit positions of PriceFlag/MarketStatusFlag and status numbering are restated there from the docs).",
        technique="Kani/CBMC symbolic execution of the real gmsol-utils code, SAT-decided equivalence with an exact reference",
        design="C27"),
    "C34": dict(
        text=BOUNDED + "one inductive step of insert/replace/remove/get/get_mut/clear/entries from every map image that "
             "satisfies the representation invariant, with a symbolic probe key (functional map equality), so histories of "
             "any length follow by induction; the macro is instantiated at capacity 3 with 2-byte keys "
             "(both tiers run the same harnesses; the 32-entry program shape is not run).",
        note="Trusted: kani-compiler + CBMC; the representation invariant (count<=N, strictly sorted prefix, default tail) "
             "is assumed for the pre-state and proved for the post-state. Key hashing (sha256) is replaced by an identity key "
             "function: the map code is generic in it.",
        technique="Kani/CBMC one-step induction over symbolic map images with probe-key specification",
        design="C34"),
    "C35": dict(
        text=BOUNDED + "every UTF-8 string up to one byte longer than the buffer is pushed through the real "
             "fixed_str_to_bytes/bytes_to_fixed_str pair (N=4 quick, N=8 thorough) and must read back identically or be rejected, "
             "and storable names must be accepted. In addition names with multi-byte characters around the capacity (byte length != "
             "character count: 4-, 5- and 6-byte names built from concrete character widths with every well-formed byte value; "
             "8/9-byte names in the thorough tier) go through the same contract, with concrete lengths so that character-walking "
             "code stays decidable.",
        note="Trusted: kani-compiler + CBMC. Buffer sizes 4/8 instead of 32/64: the functions are const-generic in MAX_LEN "
             "and contain no size-specific code. The multi-byte names are built with from_utf8_unchecked from byte ranges that "
             "c35_shapes_are_utf8 proves valid with the real core::str::from_utf8 on every run.",
        technique="Kani/CBMC symbolic execution of the real round trip over all short UTF-8 strings",
        design="C35"),
}

NOT_APPLICABLE = {
    "C03": "harnesses for PoolDelta::price_impact / adjusted_factors are being built in harness/model; not claimed until their quick tier is quiet on the unchanged tree.",
    "C11": "harnesses for PositionExt::pnl_value / cap_pnl are being built in harness/model; not claimed until their quick tier is quiet on the unchanged tree.",
    "C18": "harnesses written (harness/store/src/c18_roles.rs: one arbitrary role operation from eight reachable role-store states against a grant-set model; restart policy of Store::has_role / has_admin_role "
           "with a stubbed LastRestartSlot) but a single symbolic RoleStore operation (32-byte name handling, utf-8 validation, fixed_map shifting loops over 32/64 entries) does not finish in CBMC within "
           "900-1500 s; in addition CBMC 6.11 mis-evaluates memcmp through symbolically indexed elements of maps nested at a non-zero offset (members map with >= 2 entries), so multi-member histories "
           "cannot be decided soundly. Kept tier=experimental, not claimed.",
    "C19": "access control is an attribute on ~200 Anchor entrypoints whose bodies need Context<..> with PDA-validated AccountInfos, "
           "token CPIs and sysvars; a hand-built AccountInfo + real AccountLoader + RevertibleMarket::new did not finish symbolic execution in 600 s for a single pool read (probed), "
           "so a property quantified over all instructions is out of reach of solver-based checking here.",
    "C36": "timelock state-level harnesses (InstructionHeader::approve / is_executable, TimelockConfig::increase_delay, InstructionAccess::to_instruction) are being built in harness/periph; not claimed until quiet.",
    "C37": "treasury state-level harnesses (Config factors, GtBank transitions) are being built in harness/periph; not claimed until quiet. The proportional-claim formula is inline in CompleteGtExchange::execute behind token CPIs.",
    "C38": "compute_time_weighted_apy / calculate_gt_reward_amount harnesses are being built in harness/periph (53-bucket loops of saturating 128-bit products: expensive); not claimed until quiet. unstake_lp needs token CPIs.",
    "C39": "competition leaderboard / time-extension harnesses are being built in harness/periph; not claimed until quiet.",
    "C41": "heap-backed containers with hashing (HashSet<Pubkey>, IndexMap), bincode serialisation and input-proportional loops: "
           "outside what CBMC can execute symbolically and not loop-free integer code for the MIR->SMT encoder.",
    "C42": "petgraph StableGraph + Bellman-Ford over rust_decimal edge weights with HashMap state: heap/hash containers and "
           "input-proportional loops are outside the reach of the solver-based engines available.",
    "C44": "path execution runs over account-loader-backed revertible markets and HashSet<Pubkey> (RandomState) duplicate detection, "
           "reachable only through Anchor contexts and CPIs; per-hop arithmetic is decided under C04/C05.",
}

# Additional claims live in lib/claims/*.py, one file per work area; each defines CLAIMED and/or
# NOT_APPLICABLE dicts with the same shape as above (a claim there overrides a not-applicable here).
import glob as _glob, os as _os
for _f in sorted(_glob.glob(_os.path.join(_os.path.dirname(_os.path.abspath(__file__)), "claims", "*.py"))):
    _ns = {"BOUNDED": BOUNDED}
    exec(compile(open(_f).read(), _f, "exec"), _ns)
    CLAIMED.update(_ns.get("CLAIMED", {}))
    NOT_APPLICABLE.update(_ns.get("NOT_APPLICABLE", {}))
    # AMEND = {"Cnn": {"text_append": .., "note_append": .., "technique": .., "engine": ..}} extends a claim made in an earlier file
    for _p, _a in _ns.get("AMEND", {}).items():
        if _p in CLAIMED:
            _c = dict(CLAIMED[_p])
            _c["text"] = _c["text"] + " " + _a.get("text_append", "")
            _c["note"] = _c["note"] + " " + _a.get("note_append", "")
            for _k in ("technique", "engine"):
                if _k in _a:
                    _c[_k] = _a[_k]
            CLAIMED[_p] = _c
for _p in CLAIMED:
    NOT_APPLICABLE.pop(_p, None)
